"""C19 — disabling checks makes decorated code behave exactly like plain code.

Exhaustive exploration, differential against the UNDECORATED code (engines E2 +
E4 of DESIGN.md).  Four parts, all enumerated completely within stated bounds:

A  operation histories: ALL sequences of length <= 4 (quick) / <= 5 (thorough)
   over {ON, OFF, DEC, CW, CI, CR, CN} (switch on/off through config.update,
   decorate a fresh callable, call well-typed / ill-typed / ill-typed-return /
   non-binding), executed statelessly (fresh callables per history) for every
   callable kind x typechecker; every call is made on the decorated callable and
   on the same source compiled WITHOUT jaxtyped, and the two observations
   (result identity | exception identity, body log incl. argument identities
   and a context probe) must be equal while checking is off; while it is on,
   ill-typed calls must raise jaxtyping.TypeCheckError (no re-decoration).
B  matrix: every kind (incl. a callable INSTANCE, an instance of a __slots__ class, a BOUND
   METHOD as the decorated object) x decorator arrangement x delivery (explicit decorator |
   install_import_hook) x typechecker (typeguard | beartype | None) x no_type_check placement
   (above / below the decorator, on the class - for a callable instance the flag is then
   visible through getattr(fn, ...) without being in fn.__dict__ -, 'late' = applied to the
   function after jaxtyped wrapped it) x switch timing (before / after decoration) x a
   battery of ~20 argument lists.
C  config.update: every letter-case of the item names x switch values x prior
   state; accepted spellings exactly {0,1,true,false any case, bool}.
D  environment: one subprocess per (variable, value); import must raise
   ValueError for unrecognised values, otherwise the whole matrix of B runs
   in the child under the environment-provided state.

E  lazy callables (coroutine functions, generator functions, async generators; as
   function / method / classmethod / staticmethod in both decorator orders; explicit
   decorator, typechecker=None, import hook): a call only CREATES an object, the body
   runs when it is driven (send / next / asend, by hand, no event loop).  ALL histories
   of length <= 4 (quick) / <= 5 or 6 (thorough) over {ON, OFF, C, S} (C = call with a
   well-typed, an ill-typed and a non-binding argument list: three new objects; S = drive
   every live object one step), from a callable decorated while enabled and while
   disabled, plus a matrix of switch-timing templates (flip before the call, between
   the call and the first step, between steps) x the whole argument battery.  Every
   moment is compared with the undecorated source: outcome of the call (exception
   type+message raised AT THE CALL, or type of the object returned), every step event
   (suspension / yielded / returned object identity, exception identity), body log per
   moment (number of executions, argument identities, context probe).  A call made
   while checking is off must equal plain code for its whole life, whatever the switch
   does later.

N  names: with checking off the wrapper must pass (*args, **kwargs) through untouched whatever
   the NAMES of the keyword arguments are.  Alphabet = identifiers the wrapper machinery uses
   itself (parameter / local / closure names of every code object of the jaxtyping sources of the
   tree under test, read at run time) + a fixed list of conventional wrapper vocabulary (fn,
   args, kwargs, self, cls, func, wrapped, ...).  Every name is used as a positional-or-keyword
   parameter passed by keyword, as a keyword-only parameter, as a positional-only parameter whose
   name is also a **kwargs key, and as a key of **kwargs of f(zq, **kw) / f(*a, **kw); for every
   holder (function, method, class/static method in both orders, dataclass, lambda, callable
   instance, __slots__ instance, bound method, coroutine / generator / async generator function),
   typeguard / beartype / typechecker=None, explicit decorator and import hook, every
   no_type_check placement and the switch flipped before / after decoration; and in the
   environment children.  Differential against the same source without jaxtyped.

jaxtyping.config is restored to "enabled" in finally blocks everywhere.
"""
from __future__ import annotations

import functools
import importlib
import itertools
import json
import os
import shutil
import subprocess
import sys
import tempfile

from .. import common
from ..common import HarnessError, Result, Violation

# --------------------------------------------------------------------------- alphabets

OPS = ("ON", "OFF", "DEC", "CW", "CI", "CR", "CN")
CALL_OF_OP = {"CW": "W", "CI": "I", "CR": "R", "CN": "N"}
ON_SPELL = (True, "1", "true", "TRUE", "tRuE")
OFF_SPELL = (False, "0", "false", "False", "FALSE")

D_ITEM = "jaxtyping_disable"
S_ITEM = "jaxtyping_remove_typechecker_stack"
ENV_OF = {D_ITEM: "JAXTYPING_DISABLE", S_ITEM: "JAXTYPING_REMOVE_TYPECHECKER_STACK"}

VALUES_CORE = ["0", "1", "true", "false", "TRUE", "False", "tRuE", True, False, "yes", "", " 1", "2", None, 0, 1, 1.0]
ENV_VALUES = ["0", "1", "true", "false", "TRUE", "False", "tRuE", "yes", "", " 1", "2", None]  # None = unset

TCS = ("typeguard", "beartype")
TC_STRING = {"typeguard": "typeguard.typechecked", "beartype": "beartype.beartype"}


def all_case_spellings(word):
    return ["".join(t) for t in itertools.product(*[(c.lower(), c.upper()) if c.isalpha() else (c,) for c in word])]


def values_full():
    out = list(VALUES_CORE)
    for w in ("true", "false"):
        for s in all_case_spellings(w):
            if s not in [v for v in out if isinstance(v, str)]:
                out.append(s)
    out += ["1 ", "01", "on", "off", "no", "t", "f", "True\n", b"1", 2, -1, 0.0, [], (), [True]]
    return out


def expected_value(v):
    """The statement: 0/1/true/false in any case (strings) and booleans are accepted;
    anything else ValueError.  Non-bool numbers equal to 0/1: not settled -> 'DC'."""
    if isinstance(v, bool):
        return v
    if isinstance(v, str):
        lo = v.lower()
        if lo in ("0", "false"):
            return False
        if lo in ("1", "true"):
            return True
        return "ValueError"
    if isinstance(v, (int, float)) and v in (0, 1):
        return "DC"
    return "ValueError"


def vrepr(v):
    return f"{type(v).__name__}:{v!r}"


def enc_value(v):
    """JSON-safe encoding of a switch value (bytes / tuples are not JSON)."""
    if isinstance(v, bytes):
        return {"bytes": v.decode("latin1")}
    if isinstance(v, tuple):
        return {"tuple": list(v)}
    return v


def dec_value(v):
    if isinstance(v, dict) and "bytes" in v:
        return v["bytes"].encode("latin1")
    if isinstance(v, dict) and "tuple" in v:
        return tuple(v["tuple"])
    return v


def all_histories(maxlen):
    return [h for n in range(1, maxlen + 1) for h in itertools.product(OPS, repeat=n)]


def name_casings(item, full: bool):
    """All letter-casings (full) or those within <= 2 flips of all-lower / all-upper
    plus the two alternating ones (bounded)."""
    letters = [i for i, c in enumerate(item) if c.isalpha()]
    if full:
        return all_case_spellings(item)
    out, seen = [], set()

    def add(s):
        if s not in seen:
            seen.add(s)
            out.append(s)

    for base in (item.lower(), item.upper()):
        add(base)
        for k in (1, 2):
            for pos in itertools.combinations(letters, k):
                s = list(base)
                for p in pos:
                    s[p] = s[p].swapcase()
                add("".join(s))
    add("".join(c.upper() if i % 2 else c.lower() for i, c in enumerate(item)))
    add("".join(c.lower() if i % 2 else c.upper() for i, c in enumerate(item)))
    add(item.title())
    return out


# --------------------------------------------------------------------------- sources

SIG = "x: A, y: A = DFLT, *, k: int = 0"
HOOK_HDR = "import vf.checks.c19 as _c19\nglobals().update(_c19._FX.names)\n"
J = "@jaxtyped(typechecker=TC)"
NTC = "@no_type_check"

# kind -> family of call battery
FAMILY = {
    "def": "F1",
    "method": "F1",
    "classmethod_outer": "F1",
    "classmethod_inner": "F1",
    "staticmethod_outer": "F1",
    "staticmethod_inner": "F1",
    "property_outer": "F2",
    "property_inner": "F2",
    "dataclass": "F3",
    "lambda": "F1",
    # the decorated object is not a function: an INSTANCE with __call__ (also of a __slots__
    # class), a BOUND METHOD.  With no_type_check on the class the flag is visible through
    # getattr(fn, "__no_type_check__") without being stored in fn.__dict__ at decoration time
    "inst": "F1",
    "inst_slots": "F1",
    "boundmethod": "F1",
}
HOOK_KINDS = ("def", "method", "classmethod_inner", "staticmethod_inner", "property_inner", "dataclass")

# judged no_type_check placements: only where typing.no_type_check marks the function
# itself or the wrapper jaxtyped returned for it (see DC zones in the final notes)
NTC_PLACEMENTS = {
    # late: typing.no_type_check(fn) AFTER jaxtyped wrapped fn; used / used-above: the function / the
    # wrapper is marked after the wrapper has already been CALLED once (the marker is an attribute,
    # it may appear at any time)
    ("deco", "def"): ("above", "below", "late", "used", "used-above"),
    ("deco", "inst"): ("above", "cls"),
    ("deco", "inst_slots"): ("cls",),  # (typing.no_type_check cannot mark an object without __dict__: no 'above')
    ("deco", "boundmethod"): ("below", "cls"),  # (nor a bound method: no 'above' either)
    ("deco", "method"): ("above", "below", "cls"),
    ("deco", "classmethod_outer"): ("below", "cls"),
    ("deco", "classmethod_inner"): ("above", "below", "cls"),
    ("deco", "staticmethod_outer"): ("below", "cls"),
    ("deco", "staticmethod_inner"): ("above", "below", "cls"),
    ("deco", "property_outer"): ("below",),
    ("deco", "property_inner"): ("above", "below"),
    ("deco", "dataclass"): ("above", "below"),
    ("deco", "lambda"): ("above", "below"),
    ("hook", "def"): ("fn",),
    ("hook", "method"): ("fn", "cls"),
    ("hook", "classmethod_inner"): ("fn", "cls"),
    ("hook", "staticmethod_inner"): ("fn", "cls"),
    ("hook", "property_inner"): ("fn",),
    ("hook", "dataclass"): ("cls",),
}

# lazy kinds (part E): <flavour>_<holder>; a call creates a coroutine / generator /
# async generator, the body runs when that object is driven
FLAVOURS = ("coro", "gen", "agen")
LAZY_HOLDERS = ("def", "method", "classmethod_outer", "classmethod_inner", "staticmethod_outer", "staticmethod_inner")
LAZY_KINDS = tuple(f"{fl}_{h}" for fl in FLAVOURS for h in LAZY_HOLDERS)
_LAZY_SET = frozenset(LAZY_KINDS)
# the import hook instruments `def` only (ast.FunctionDef): hooked generator functions are
# decorated, hooked `async def` is left alone (observed, reported in coverage)
HOOK_LAZY_KINDS = ("gen_def", "gen_method", "gen_classmethod_inner", "gen_staticmethod_inner", "coro_def", "coro_method", "agen_def")
# AG is a class of its own, used nowhere else: jaxtyped(typechecker=None) on a generator function
# calls make_transparent() on the classes inside its return annotation (a process-wide mutation,
# the known C12 finding), which must not reach the parameter annotation A shared by all cases
LAZY_RET = {"coro": "A", "gen": "Iterator[AG]", "agen": "AsyncIterator[AG]"}


@functools.lru_cache(maxsize=4096)
def split_kind(kind):
    """'<holder>' | '<holder>~<role>~<name>[,<name>..]' (names part: the parameter names /
    **kwargs keys of the callable are taken from the name alphabet) -> (holder, role, names)."""
    if "~" not in kind:
        return kind, None, ()
    holder, role, names = kind.split("~")
    return holder, role, tuple(n for n in names.split(",") if n)


def holder_of(kind):
    return split_kind(kind)[0]


def base_kind(kind):
    """The holder shape that decides how a kind is reached and called."""
    kind = holder_of(kind)
    if kind in _LAZY_SET:
        return kind.split("_", 1)[1]
    return "def" if kind == "lambda" else kind


def flavour(kind):
    kind = holder_of(kind)
    return kind.split("_", 1)[0] if kind in _LAZY_SET else None


def family(kind):
    kind = holder_of(kind)
    return "F1" if kind in _LAZY_SET else FAMILY[kind]


def battery_of(kind):
    holder, role, names = split_kind(kind)
    if role is None:
        return BATTERY[family(kind)]
    return name_battery(holder, role, names)


def ntc_placements(delivery, kind):
    kind = holder_of(kind)
    if kind in _LAZY_SET:
        # 'late' marks a function already wrapped; for lazy callables the ordinary placements are kept
        return tuple(p for p in NTC_PLACEMENTS[(delivery, base_kind(kind))] if p not in ("late", "used", "used-above"))
    return NTC_PLACEMENTS[(delivery, kind)]


def _lines(decos, indent):
    return "".join(f"{indent}{d}\n" for d in decos)


def _fn_level(j, ntc):
    d = []
    if ntc == "above":
        d.append(NTC)
    if j:
        d.append(J)
    if ntc in ("below", "fn"):
        d.append(NTC)
    return d


def name_params(role, names):
    """Parameter list of a names-part callable: [(name, kind, has_default)], kind in
    po (positional-only) | pk | va (*args) | ko (keyword-only) | vk (**kwargs).
    zq / zq_a / zq_kw are the harness's own (collision-free) names."""
    if role == "pk":  # every name an optional positional-or-keyword parameter
        return [("zq", "pk", False)] + [(n, "pk", True) for n in names]
    if role == "pk1":  # ONE name, the required first parameter
        return [(names[0], "pk", False), ("zq", "pk", True)]
    if role == "ko":  # every name an optional keyword-only parameter
        return [("zq", "pk", False)] + [(n, "ko", True) for n in names]
    if role == "ko1":  # ONE name, a required keyword-only parameter
        return [("zq", "pk", False), (names[0], "ko", False)]
    if role == "po":  # every name a positional-only parameter AND usable as a key of **kwargs
        return [("zq", "po", False)] + [(n, "po", True) for n in names] + [("zq_kw", "vk", False)]
    if role == "vk":  # the names are keys of **kwargs
        return [("zq", "pk", False), ("zq_kw", "vk", False)]
    if role == "va":
        return [("zq_a", "va", False), ("zq_kw", "vk", False)]
    raise HarnessError(f"unknown role {role}")


def sig_text(params, annotated=True):
    out, seen_star = [], False
    for i, (n, k, d) in enumerate(params):
        if k in ("ko",) and not seen_star:
            out.append("*")
            seen_star = True
        piece = {"va": "*", "vk": "**"}.get(k, "") + n
        if k == "va":
            seen_star = True
        if annotated:
            piece += ": A"
        if d:
            piece += " = DFLT" if annotated else "=DFLT"
        out.append(piece)
        if k == "po" and (i + 1 == len(params) or params[i + 1][1] != "po"):
            out.append("/")
    return ", ".join(out)


def vals_text(params, prefix=""):
    return ", ".join(("*" + n) if k == "va" else (f"*KV({n})" if k == "vk" else prefix + n) for n, k, _ in params)


def first_param(kind):
    """Name of the implicit first parameter (self / cls) of a holder, or None.  When the name
    alphabet of a names-part callable claims that name for a declared parameter, the implicit
    one is called zq_self instead (so that the plain call is a valid one)."""
    _, role, names = split_kind(kind)
    bk = base_kind(kind)
    nat = "cls" if bk.startswith("classmethod") else ("self" if bk in ("method", "inst", "inst_slots", "boundmethod") else None)
    if nat is not None and role in ("pk", "pk1", "ko", "ko1", "po") and nat in names:
        return "zq_self"
    return nat


def sigvals(kind):
    """-> (signature text without self/cls, expression list logged by the body, params | None)"""
    holder, role, names = split_kind(kind)
    if role is None:
        return SIG, "x, y, k", None
    ps = name_params(role, names)
    return sig_text(ps), vals_text(ps), ps


def source(kind, j: bool, ntc):
    """Source text of one callable kind.  j: explicit jaxtyped decorator present;
    ntc: None | 'above' | 'below' (relative to jaxtyped) | 'fn' (hooked: on the
    function, the hook then adds jaxtyped beneath it) | 'cls' (on the class) | 'late' (on the
    function, after jaxtyped has wrapped it)."""
    cls_deco = f"{NTC}\n" if ntc == "cls" else ""
    full_kind = kind
    kind = holder_of(kind)
    sig, vals, params = sigvals(full_kind)
    fp = first_param(full_kind)
    first = f"{fp}, " if fp else ""
    if kind in _LAZY_SET:
        return lazy_source(full_kind, j, ntc)
    if kind == "lambda":
        # a lambda cannot be annotated in its own syntax: the annotations are attached to
        # the function object before decoration
        if params is None:
            lam, ann = "x, y=DFLT, *, k=0", "dict(x=A, y=A, k=int)"
        else:
            lam, ann = sig_text(params, annotated=False), "{" + ", ".join(f"{n!r}: A" for n, _, _ in params) + "}"
        return (
            f"_l = lambda {lam}: BODY('f', {vals})\n"
            f"_l.__annotations__ = {ann}\n"
            "_l.__annotations__['return'] = A\n"
            + ("_l = no_type_check(_l)\n" if ntc == "below" else "")
            + ("f = jaxtyped(typechecker=TC)(_l)\n" if j else "f = _l\n")
            + ("f = no_type_check(f)\n" if ntc == "above" else "")
        )
    if kind == "def":
        if ntc in ("late", "used", "used-above"):
            return (
                f"def f({sig}) -> A:\n    return BODY('f', {vals})\n_f = f\n"
                + ("f = jaxtyped(typechecker=TC)(_f)\n" if j else "")
                + ("try:\n    f(DFLT)\nexcept Exception:\n    pass\n" if ntc != "late" else "")
                + ("no_type_check(f)\n" if ntc == "used-above" else "no_type_check(_f)\n")
            )
        return _lines(_fn_level(j, ntc), "") + f"def f({sig}) -> A:\n    return BODY('f', {vals})\n"
    if kind in ("inst", "inst_slots"):
        # the class carries a class-level annotation, as dataclass-like 'module' objects do
        # (typing.get_type_hints, used at decoration, refuses an object without __annotations__)
        head = "    __slots__ = ()\n    zq_tag: int\n" if kind == "inst_slots" else "    zq_tag: int = 0\n"
        return (
            f"{cls_deco}class F:\n{head}    def __call__({first}{sig}) -> A:\n        return BODY('call', {vals})\n"
            + ("f = jaxtyped(typechecker=TC)(F())\n" if j else "f = F()\n")
            + ("f = no_type_check(f)\n" if ntc == "above" else "")
        )
    if kind == "boundmethod":
        return (
            f"{cls_deco}class C:\n" + _lines([NTC] if ntc == "below" else [], "    ") + f"    def m({first}{sig}) -> A:\n        return BODY('m', {vals})\n"
            + ("f = jaxtyped(typechecker=TC)(C().m)\n" if j else "f = C().m\n")
            + ("f = no_type_check(f)\n" if ntc == "above" else "")
        )
    if kind == "method":
        return f"{cls_deco}class C:\n" + _lines(_fn_level(j, ntc), "    ") + f"    def m({first}{sig}) -> A:\n        return BODY('m', {vals})\n"
    if kind in ("classmethod_outer", "classmethod_inner", "staticmethod_outer", "staticmethod_inner"):
        desc, arr = kind.split("_")
        name = "cm" if desc == "classmethod" else "sm"
        if arr == "outer":
            if ntc == "fn":
                raise HarnessError("placement not defined")
            # 'above' / 'mid' put no_type_check on the classmethod / staticmethod OBJECT
            # (don't-care: observed, not judged)
            decos = ([NTC] if ntc == "above" else []) + ([J] if j else []) + ([NTC] if ntc == "mid" else []) + [f"@{desc}"] + ([NTC] if ntc == "below" else [])
        else:
            decos = [f"@{desc}"] + _fn_level(j, ntc)
        return f"{cls_deco}class C:\n" + _lines(decos, "    ") + f"    def {name}({first}{sig}) -> A:\n        return BODY('{name}', {vals})\n"
    if kind in ("property_outer", "property_inner"):
        arr = kind.split("_")[1]
        if arr == "outer":
            fl = [NTC] if ntc == "below" else []
            wrap = "jaxtyped(typechecker=TC)(property(_get, _set))" if j else "property(_get, _set)"
        else:
            fl = _fn_level(j, ntc)
            wrap = "property(_get, _set)"
        return (
            "class C:\n"
            + _lines(fl, "    ")
            + "    def _get(self) -> A:\n        return BODY('get')\n"
            + _lines(fl, "    ")
            + "    def _set(self, v: A):\n        BODY('set', v)\n"
            + f"    p = {wrap}\n"
        )
    if kind == "dataclass":
        top = ([NTC] if ntc == "above" else []) + ([J] if j else []) + ([NTC] if ntc in ("below", "cls") else [])
        if params is None:
            fields, post = "    x: A\n    y: A = DFLT\n", "self.x, self.y"
        else:
            fields = "".join(f"    {n}: A{' = DFLT' if d else ''}\n" for n, _, d in params)
            post = vals_text(params, prefix="self.")
        return (
            _lines(top, "")
            + f"@dataclass\nclass D:\n{fields}"
            + f"    def __post_init__(self):\n        BODY('post', {post})\n"
        )
    raise HarnessError(f"unknown kind {kind}")


def lazy_source(kind, j: bool, ntc):
    """coroutine function / generator function / async generator in one of six holders.
    Two body sections (logged separately) around a suspension point / a yield."""
    sig, vals, _ = sigvals(kind)
    fp = first_param(kind)
    y_expr = "y" if split_kind(kind)[1] is None else "DFLT"
    kind = holder_of(kind)
    fl, holder = kind.split("_", 1)
    cls_deco = f"{NTC}\n" if ntc == "cls" else ""
    first = f"{fp}, " if fp else ""
    if holder == "def":
        pre, ind, name, decos = "", "", "f", _fn_level(j, ntc)
    elif holder == "method":
        pre, ind, name, decos = f"{cls_deco}class C:\n", "    ", "m", _fn_level(j, ntc)
    else:
        desc, arr = holder.split("_")
        pre, ind = f"{cls_deco}class C:\n", "    "
        name = "cm" if desc == "classmethod" else "sm"
        if arr == "outer":
            if ntc not in (None, "below", "cls"):
                raise HarnessError("placement not defined")
            decos = ([J] if j else []) + [f"@{desc}"] + ([NTC] if ntc == "below" else [])
        else:
            decos = [f"@{desc}"] + _fn_level(j, ntc)
    head = "def" if fl == "gen" else "async def"
    b = ind + "    "
    body = f"{b}r = BODY('{name}', {vals})\n"
    # `got`: what the driver sends in at the suspension point (logged by the second section)
    if fl == "coro":
        body += f"{b}got = await SUSP\n{b}BODY('{name}2', got)\n{b}return r\n"
    elif fl == "gen":
        body += f"{b}got = yield r\n{b}BODY('{name}2', got)\n{b}yield {y_expr}\n{b}return r\n"
    else:
        body += f"{b}got = yield r\n{b}got2 = await SUSP\n{b}BODY('{name}2', got, got2)\n{b}yield {y_expr}\n"
    return pre + _lines(decos, ind) + f"{ind}{head} {name}({first}{sig}) -> {LAZY_RET[fl]}:\n" + body


# --------------------------------------------------------------------------- batteries
# name -> (group, body mode, payload); groups: w well-typed, i ill-typed argument,
# r ill-typed return, e body raises a pre-built exception object (ei: with ill-typed
# arguments), n non-binding, x ill-typed only through a default value (not judged
# while checking is on: neither typechecker checks defaults).

F1 = {
    "W": ("w", "x", (("X2",), {"y": "Y2", "k": 1})),
    "w_pos": ("w", "x", (("X2", "Y2"), {})),
    "w_kw": ("w", "x", ((), {"x": "X2", "y": "Y2", "k": 2})),
    "w_dflt": ("w", "x", (("X2",), {})),
    "I": ("i", "x", (("X2",), {"y": "Y3", "k": 1})),
    "i_pos": ("i", "x", (("X2", "Y3"), {})),
    "i_kw": ("i", "x", ((), {"y": "Y3", "x": "X2"})),
    "i_cls": ("i", "x", (("S", "Y2"), {})),
    "i_dtype": ("i", "x", (("XI2",), {"y": "Y2"})),
    "i_dflt": ("x", "x", (("X3",), {})),  # defaults are not checked by either typechecker: judged only while off
    "i_k": ("i", "x", (("X2",), {"k": "S"})),
    "R": ("r", "bad", (("X2",), {"y": "Y2"})),
    "r_shape": ("r", "shape", (("X2",), {"y": "Y2"})),
    "e_raise": ("e", "raise", (("X2",), {"y": "Y2"})),
    "e_raise_ill": ("ei", "raise", (("X2", "Y3"), {})),
    "N": ("n", "x", ((), {"y": "Y2"})),
    "n_none": ("n", "x", ((), {})),
    "n_extra": ("n", "x", (("X2", "Y2", "Y2"), {})),
    "n_unk": ("n", "x", (("X2",), {"zz": "X2"})),
    "n_dup": ("n", "x", (("X2",), {"x": "X2"})),
}
F2 = {
    "W": ("w", "x", ("set", "X2")),
    "w_get": ("w", "x", ("get",)),
    "I": ("i", "x", ("set", "M23")),
    "i_cls": ("i", "x", ("set", "S")),
    "i_dtype": ("i", "x", ("set", "XI2")),
    "R": ("r", "bad", ("get",)),
    "r_rank": ("r", "rank", ("get",)),
    "e_raise": ("e", "raise", ("get",)),
    "e_raise_set": ("e", "raise", ("set", "X2")),
    "e_raise_ill": ("ei", "raise", ("set", "S")),
    "N": ("n", "x", ("fset", ())),
    "n_get": ("n", "x", ("fget", None)),
    "n_extra": ("n", "x", ("fset", ("X2", "X2"))),
}
F3 = {
    "W": ("w", "x", (("X2",), {"y": "Y2"})),
    "w_pos": ("w", "x", (("X2", "Y2"), {})),
    "w_kw": ("w", "x", ((), {"x": "X2", "y": "Y2"})),
    "w_dflt": ("w", "x", (("X2",), {})),
    "I": ("i", "x", (("X2",), {"y": "Y3"})),
    "i_pos": ("i", "x", (("X2", "Y3"), {})),
    "i_cls": ("i", "x", (("S", "Y2"), {})),
    "i_dtype": ("i", "x", (("XI2",), {"y": "Y2"})),
    "i_dflt": ("x", "x", (("X3",), {})),  # defaults are not checked by either typechecker: judged only while off
    "R": None,  # __init__ has no return value to ill-type
    "e_raise": ("e", "raise", (("X2",), {"y": "Y2"})),
    "e_raise_ill": ("ei", "raise", (("X2", "Y3"), {})),
    "N": ("n", "x", ((), {"y": "Y2"})),
    "n_none": ("n", "x", ((), {})),
    "n_extra": ("n", "x", (("X2", "Y2", "Y2"), {})),
    "n_unk": ("n", "x", (("X2",), {"zz": "X2"})),
}
BATTERY = {"F1": F1, "F2": F2, "F3": F3}


# --------------------------------------------------------------------------- names part: alphabet + batteries
# With checking off the wrapper must hand (*args, **kwargs) to the function untouched, whatever the
# NAMES of the keyword arguments are.  The alphabet: identifiers the wrapper machinery itself uses
# (parameters / locals / closure variables of every code object compiled from the jaxtyping sources,
# read at run time from the tree under test) plus a fixed list (conventional wrapper vocabulary).

FIXED_NAMES = (
    "fn", "args", "kwargs", "self", "cls", "typechecker", "wrapped_fn", "wrapped_fn_impl", "wrapped_fn_holder",
    "memos", "bound", "signature", "full_signature", "param_signature", "x", "y", "out", "e", "name", "qualname",
    "module", "full_fn", "param_fn", "output_name", "ret0", "ret1", "T0", "default0", "fn0", "func", "function",
    "f", "g", "wrapped", "wrapper", "callable", "kw", "kwds", "kwarg", "a", "k", "arg", "arg0", "config", "jaxtyped",
    "obj", "instance", "owner", "value", "arguments", "argmsg", "msg", "_", "__", "__tracebackhide__", "mcs",
    "metacls", "klass", "this", "other", "key", "typ", "type", "result", "ret", "retval", "context", "frame",
    "target", "call", "impl", "inner", "outer", "decorator", "checker", "hook", "disable", "jaxtyping_disable",
    "no_type_check", "check", "partial", "params", "parameters", "p", "v", "i", "n", "cb", "callback", "method",
)  # fmt: skip
# names the generated sources use for themselves inside bodies / class bodies
RESERVED_NAMES = frozenset({"A", "AG", "DFLT", "BODY", "KV", "SUSP", "TC", "Iterator", "AsyncIterator", "dataclass", "zq", "zq_a", "zq_kw", "zq_self", "zq_tag", "zq_unknown", "r", "got", "got2", "__class__"})
NAME_CHUNK = 48
# further keys of **kwargs (roles vk / va only): legal in a call through **{...}, impossible as parameter names
ODD_KEYS = ("class", "def", "None", "a-b", "0", "fn ", "Fn", "\u00e9", "a.b", "lambda", "return", "*args")
GROUP_ROLES = ("pk", "ko", "po", "vk", "va")
SINGLE_ROLES = ("pk1", "ko1")


def usable_name(n):
    import keyword

    return isinstance(n, str) and n.isidentifier() and not keyword.iskeyword(n) and n not in RESERVED_NAMES and not (n.startswith("__") and not n.endswith("__"))


def source_names(scope):
    """Parameter / local / closure variable names of every code object of the jaxtyping sources
    under test ('decorator': _decorator.py only; 'package': every module).  -> (sorted names, files read, files failed)"""
    import types

    root = os.path.join(common.REPO, "jaxtyping")
    try:
        files = ["_decorator.py"] if scope == "decorator" else sorted(f for f in os.listdir(root) if f.endswith(".py"))
    except OSError:
        return [], 0, 1
    names, ok, failed = set(), 0, 0
    for f in files:
        try:
            with open(os.path.join(root, f), encoding="utf-8") as fh:
                code = compile(fh.read(), f, "exec", dont_inherit=True)
        except Exception:  # noqa: BLE001  (unreadable source: the fixed list still applies)
            failed += 1
            continue
        ok += 1
        stack = [code]
        while stack:
            c = stack.pop()
            names.update(c.co_varnames, c.co_cellvars, c.co_freevars)
            stack.extend(k for k in c.co_consts if isinstance(k, types.CodeType))
    return sorted(n for n in names if usable_name(n)), ok, failed


def name_alphabet(scope):
    derived, ok, failed = source_names(scope)
    fixed = [n for n in FIXED_NAMES if usable_name(n)]
    allnames = fixed + [n for n in derived if n not in set(fixed)]
    return allnames, dict(fixed=len(fixed), read_from_source=len(derived), total=len(allnames), source_files_read=ok, source_files_failed=failed, scope=scope)


def name_chunks(names, size=NAME_CHUNK):
    return [tuple(names[i : i + size]) for i in range(0, len(names), size)]


def named_kind(holder, role, names):
    return f"{holder}~{role}~{','.join(names)}"


def holder_roles(holder):
    if holder == "dataclass":
        return ("pk", "pk1")
    return GROUP_ROLES + SINGLE_ROLES


_NB_CACHE = {}


def name_battery(holder, role, names):
    key = (holder, role, tuple(names))
    if key not in _NB_CACHE:
        if len(_NB_CACHE) > 256:
            _NB_CACHE.clear()
        _NB_CACHE[key] = _name_battery(holder, role, tuple(names))
    return _NB_CACHE[key]


def _name_battery(holder, role, names):
    """Argument lists of a names-part callable.  Same format as F1; call names carry the NAME
    under test so that violation keys say which one collided."""
    lazy = holder in _LAZY_SET
    has_ret = holder != "dataclass" and not lazy  # ill-typed results of lazy callables are not judged while ON
    nat = first_param(named_kind(holder, "vk", names))  # the implicit self / cls, if any
    b = {}
    if not names:
        raise HarnessError("empty name chunk")
    n0 = names[0]
    if role in ("pk", "ko"):
        for n in names:
            b[f"kw={n}"] = ("w", "x", (("X2",), {n: "Y2"}))
            b[f"ill={n}"] = ("i", "x", (("X2",), {n: "Y3"}))
        b["all"] = ("w", "x", (("X2",), {n: "Y2" for n in names}))
        b["all_kw"] = ("w", "x", ((), dict({n: "Y2" for n in names}, zq="X2")))
        b["ill_all"] = ("i", "x", (("X2",), {n: "Y3" for n in names}))
        b["none"] = ("w", "x", (("X2",), {}))
        b["r_bad"] = ("r", "bad", (("X2",), {n0: "Y2"})) if has_ret else None
        b["e_raise"] = ("e", "raise", (("X2",), {n0: "Y2"}))
        b["e_raise_ill"] = ("ei", "raise", (("X2",), {n0: "Y3"}))
        b["n_unk"] = ("n", "x", (("X2",), {n0: "Y2", "zq_unknown": "Y2"}))
        b["n_dup"] = ("n", "x", (("X2", "Y2"), {n0: "Y2"}))
        b["n_missing"] = ("n", "x", ((), {n0: "Y2"}))
    elif role == "po":
        # a keyword whose name equals a positional-only parameter lands in **kwargs; while checking
        # is ON inspect.Signature.bind mishandles exactly this (CPython; the known C07 finding):
        # group x = judged only while checking is off
        for n in names:
            b[f"key={n}"] = ("x", "x", (("X2",), {n: "Y2"}))
            b[f"illkey={n}"] = ("x", "x", (("S",), {n: "Y2"}))
        b["all"] = ("x", "x", (("X2",), {n: "Y2" for n in names}))
        b["pos"] = ("w", "x", (("X2", "Y2"), {}))
        b["ill_pos"] = ("i", "x", (("X2", "Y3"), {}))
        b["none"] = ("w", "x", (("X2",), {}))
        b["e_raise"] = ("x", "raise", (("X2",), {n0: "Y2"}))
        b["n_missing"] = ("n", "x", ((), {n0: "Y2"}))
    elif role in ("vk", "va"):
        for n in names:
            clash = n == nat  # f(self=...) on a method: plain code raises TypeError itself
            b[f"key={n}"] = ("n" if clash else "w", "x", (("X2",), {n: "Y2"}))
            b[f"illkey={n}"] = ("n" if clash else "i", "x", (("S",), {n: "Y2"}))
        free = [n for n in names if n != nat]
        b["all"] = ("w", "x", (("X2",), {n: "Y2" for n in free}))
        b["ill_all"] = ("x", "x", (("X2",), {n: "Y3" for n in free}))  # values of **kwargs: not every typechecker looks at them
        b["none"] = ("w", "x", (("X2",), {}))
        if free:
            b["r_bad"] = ("r", "bad", (("X2",), {free[0]: "Y2"})) if has_ret else None
            b["e_raise"] = ("e", "raise", (("X2",), {free[0]: "Y2"}))
            if role == "vk":
                b["n_dup"] = ("n", "x", (("X2",), {"zq": "X2", free[0]: "Y2"}))
                b["all_kw"] = ("w", "x", ((), dict({n: "Y2" for n in free}, zq="X2")))
            else:
                b["two_pos"] = ("w", "x", (("X2", "Y2"), {free[0]: "Y2"}))
    elif role == "pk1":
        b["W"] = ("w", "x", ((), {n0: "X2", "zq": "Y2"}))
        b["w_only"] = ("w", "x", ((), {n0: "X2"}))
        b["w_pos"] = ("w", "x", (("X2", "Y2"), {}))
        b["I"] = ("i", "x", ((), {n0: "X2", "zq": "Y3"}))
        b["i_cls"] = ("i", "x", ((), {n0: "S"}))
        b["R"] = ("r", "bad", ((), {n0: "X2"})) if has_ret else None
        b["e_raise"] = ("e", "raise", ((), {n0: "X2"}))
        b["N"] = ("n", "x", ((), {"zq": "Y2"}))
        b["n_dup"] = ("n", "x", (("X2",), {n0: "X2"}))
    elif role == "ko1":
        b["W"] = ("w", "x", (("X2",), {n0: "Y2"}))
        b["w_kw"] = ("w", "x", ((), {"zq": "X2", n0: "Y2"}))
        b["I"] = ("i", "x", (("X2",), {n0: "Y3"}))
        b["R"] = ("r", "bad", (("X2",), {n0: "Y2"})) if has_ret else None
        b["e_raise"] = ("e", "raise", (("X2",), {n0: "Y2"}))
        b["N"] = ("n", "x", (("X2",), {}))
    else:
        raise HarnessError(f"unknown role {role}")
    return b


# --------------------------------------------------------------------------- fixture

_FX = None  # per-process fixture (hooked modules read _FX.names)


class Fx:
    def __init__(self):
        common.bind_repo()
        import dataclasses
        import typing

        import beartype
        import jaxtyping
        import typeguard
        from jaxtyping import Float, jaxtyped

        from ..adapter import Duck

        self.jaxtyping = jaxtyping
        self.config = jaxtyping.config
        self.TypeCheckError = jaxtyping.TypeCheckError
        self.tc = {"typeguard": typeguard.typechecked, "beartype": beartype.beartype, "none": None}
        self.A = Float[Duck, "a"]
        self.B = Float[Duck, "c19probe"]
        self.objs = {
            "X2": Duck((2,)),
            "Y2": Duck((2,)),
            "Y3": Duck((3,)),
            "X3": Duck((3,)),
            "XI2": Duck((2,), "int32"),
            "M23": Duck((2, 3)),
            "S": "s",
            "DFLT": Duck((2,)),
            "GOOD": Duck((2,)),
            "BAD": "bad-return",
            "RET5": Duck((5,)),
            "SENT": Duck((7,)),
            "None": None,
        }
        self.P2, self.P3 = Duck((2,)), Duck((3,))
        self.EXC = RuntimeError("c19 pre-built body exception")
        self.by_id = {id(v): k for k, v in self.objs.items() if v is not None}
        self.log = []
        self.mode = "x"
        self.anomalies = set()
        fx = self

        def BODY(tag, *vals):
            # context probe: outside any jaxtyping context both are True; inside a
            # context pushed by a (not disabled) wrapper the second one is False
            probe = (isinstance(fx.P2, fx.B), isinstance(fx.P3, fx.B))
            by_id, token = fx.by_id, fx.token
            fx.log.append((tag, tuple([by_id.get(id(v)) or token(v) for v in vals]), probe))
            m = fx.mode
            if m == "raise":
                raise fx.EXC
            if m == "bad":
                return fx.objs["BAD"]
            if m == "shape":
                return fx.objs["RET5"]
            if m == "rank":
                return fx.objs["M23"]
            return vals[0] if vals else fx.objs["GOOD"]

        self.names = {
            "A": self.A,
            "AG": Float[Duck, "c19gen"],
            "DFLT": self.objs["DFLT"],
            "BODY": BODY,
            "jaxtyped": jaxtyped,
            "no_type_check": typing.no_type_check,
            "dataclass": dataclasses.dataclass,
            "Iterator": typing.Iterator,
            "AsyncIterator": typing.AsyncIterator,
            "SUSP": _Susp(),
            "KV": lambda d: tuple(sorted(d)) + tuple(d[k] for k in sorted(d)),
        }
        self._plain = {}

    # -- canonical tokens -----------------------------------------------------------
    def token(self, v):
        t = self.by_id.get(id(v))
        if t is not None:
            return t
        if v is None:
            return "None"
        if isinstance(v, _Trace):
            return ("trace",) + tuple(v)
        if dataclasses_is_instance(v):
            return ("inst", type(v).__qualname__, self.token(getattr(v, "x", None)), self.token(getattr(v, "y", None)))
        if isinstance(v, (int, str)):
            return ("lit", repr(v))
        return ("new", type(v).__qualname__)

    def exc_token(self, e):
        if e is self.EXC:
            return "EXC"
        if isinstance(e, self.TypeCheckError):
            return "TypeCheckError"
        return (type(e).__module__ + "." + type(e).__qualname__, str(e))

    # -- namespaces -----------------------------------------------------------------
    def exec_ns(self, src, tcname):
        # a real (temporarily registered) module, so that dataclasses and
        # typing.no_type_check(class) see the same __module__ as in ordinary code
        import types

        mod = types.ModuleType("c19_fixture_ns")
        ns = mod.__dict__
        ns.update(self.names)
        ns["TC"] = self.tc[tcname] if tcname else None
        ns["__c19_module__"] = mod  # keeps the module object alive with its functions
        old = sys.modules.get("c19_fixture_ns")
        sys.modules["c19_fixture_ns"] = mod
        try:
            exec(compile(src, "<c19-fixture>", "exec", dont_inherit=True), ns)
        finally:
            if old is None:
                sys.modules.pop("c19_fixture_ns", None)
            else:
                sys.modules["c19_fixture_ns"] = old
        return ns

    def plain(self, kind):
        if kind not in self._plain:
            if len(self._plain) > 64:
                self._plain = {k: v for k, v in self._plain.items() if "~" not in k}
            self._plain[kind] = self.exec_ns(source(kind, False, None), None)
        return self._plain[kind]

    # -- calls ----------------------------------------------------------------------
    def thunk(self, kind, ns, call):
        fam = family(kind)
        spec = battery_of(kind)[call]
        _, _, payload = spec
        o = self.objs
        named_lazy = flavour(kind) if "~" in kind else None
        kind = base_kind(kind)
        if fam in ("F1", "F3"):
            args, kwargs = payload
            a = tuple(o[n] for n in args)
            kw = {k: (o[v] if isinstance(v, str) else v) for k, v in kwargs.items()}
            if kind in ("def", "inst", "inst_slots", "boundmethod"):
                t = lambda: ns["f"](*a, **kw)  # noqa: E731
            elif kind == "method":
                t = lambda: ns["C"]().m(*a, **kw)  # noqa: E731
            elif kind.startswith("classmethod"):
                t = lambda: ns["C"].cm(*a, **kw)  # noqa: E731
            elif kind.startswith("staticmethod"):
                t = lambda: ns["C"].sm(*a, **kw)  # noqa: E731
            elif kind == "dataclass":
                t = lambda: ns["D"](*a, **kw)  # noqa: E731
            else:
                raise HarnessError(f"no thunk for {kind} {call}")
            if named_lazy:
                return lambda: self.drive(named_lazy, t())
            return t
        else:
            act = payload[0]
            if act == "get":
                return lambda: ns["C"]().p
            if act == "set":
                v = o[payload[1]]

                def _set():
                    ns["C"]().p = v

                return _set
            if act == "fget":
                return lambda: ns["C"].p.fget()
            if act == "fset":
                extra = tuple(o[n] for n in payload[1])
                return lambda: ns["C"].p.fset(ns["C"](), *extra)
        raise HarnessError(f"no thunk for {kind} {call}")

    def drive(self, fl, obj):
        """Drive a coroutine / generator / async generator to its end by hand; the body log
        accumulates in self.log as usual.  An exception raised AT THE CALL never gets here."""
        live = Live(self, fl, obj)
        events = [("created", type(obj).__name__)]
        try:
            while not live.done:
                events.append(live.step())
                if len(events) > MAX_STEPS:
                    raise HarnessError(f"lazy object not exhausted after {MAX_STEPS} steps")
        finally:
            if not live.done:
                live.close()
        return _Trace(events)

    def observe(self, thunk, mode):
        self.log.clear()
        self.mode = mode
        cause = None
        try:
            r = thunk()
        except Exception as e:  # noqa: BLE001
            out = ("exc", self.exc_token(e))
            cause = e.__cause__ is None
        else:
            out = ("ret", self.token(r))
        finally:
            self.mode = "x"
        return out, tuple(self.log), cause

    def restore(self):
        """Switch both flags off through the public config.update; if that does not
        take (which is itself a violation: 'switching back on restores checking'),
        record it and reset the attribute directly so that later cases start clean."""
        for item in (D_ITEM, S_ITEM):
            try:
                self.config.update(item, False)
            except Exception as e:  # noqa: BLE001
                self.anomalies.add(f"{item}:update-False-raised-{type(e).__name__}")
            if getattr(self.config, item) is not False:
                self.anomalies.add(f"{item}:update-False-left-flag-{getattr(self.config, item)!r}")
                setattr(self.config, item, False)

    def take_anomalies(self):
        out = [
            Violation(
                key=f"C19:restore:{a}",
                what=f"config.update({a.split(':')[0]!r}, False) did not switch the flag off ({a})",
                replay=dict(part="restore", item=a.split(":")[0]),
            ).to_json()
            for a in sorted(self.anomalies)
        ]
        self.anomalies.clear()
        return out


class _Trace(tuple):
    """Step events of a lazy object driven to exhaustion (names part: one observation = the call
    plus the whole life of the object it returned)."""


class _Susp:
    """Awaitable with one suspension point: the driver sees the token 'SUSP'."""

    def __await__(self):
        got = yield "SUSP"
        return got


def dataclasses_is_instance(v):
    return hasattr(type(v), "__dataclass_fields__")


def get_fx():
    global _FX
    if _FX is None:
        _FX = Fx()
    return _FX


class World:
    """Temporary module forest + import hooks for the 'hook' delivery."""

    def __init__(self, fx, need_hook=True, extra=()):
        """extra: further (typechecker, kind, ntc) triples to provide hooked modules for
        (names part: the kind string carries the parameter names)."""
        self.fx = fx
        self.need_hook = need_hook
        self.extra = tuple(extra)
        self.dir = None
        self.hooks = []
        self.names = {}

    def __enter__(self):
        if not self.need_hook:
            return self
        self.dir = tempfile.mkdtemp(prefix="c19world_")
        sys.dont_write_bytecode = True
        tag = f"c19hk{os.getpid()}"
        per_tc = {t: [] for t in TCS}
        for t in TCS:
            for kind in HOOK_KINDS + HOOK_LAZY_KINDS:
                for ntc in (None,) + ntc_placements("hook", kind):
                    name = f"{tag}_{t}_{kind}_{ntc or 'none'}"
                    with open(os.path.join(self.dir, name + ".py"), "w") as f:
                        f.write(HOOK_HDR + source(kind, False, ntc))
                    self.names[(t, kind, ntc)] = name
                    per_tc[t].append(name)
        for i, (t, kind, ntc) in enumerate(self.extra):
            if (t, kind, ntc) in self.names:
                continue
            name = f"{tag}_{t}_x{i}_{ntc or 'none'}"
            with open(os.path.join(self.dir, name + ".py"), "w") as f:
                f.write(HOOK_HDR + source(kind, False, ntc))
            self.names[(t, kind, ntc)] = name
            per_tc[t].append(name)
        sys.path.insert(0, self.dir)
        importlib.invalidate_caches()
        for t in TCS:
            self.hooks.append(self.fx.jaxtyping.install_import_hook(per_tc[t], TC_STRING[t]))
        return self

    def import_hooked(self, tcname, kind, ntc):
        name = self.names[(tcname, kind, ntc)]
        sys.modules.pop(name, None)
        try:
            mod = importlib.import_module(name)
        finally:
            sys.modules.pop(name, None)
        return mod.__dict__

    def __exit__(self, *exc):
        for h in self.hooks:
            h.uninstall()
        if self.dir is not None:
            if self.dir in sys.path:
                sys.path.remove(self.dir)
            for n in self.names.values():
                sys.modules.pop(n, None)
            shutil.rmtree(self.dir, ignore_errors=True)
            importlib.invalidate_caches()
        return False

    def decorate(self, combo):
        delivery, kind, tcname, ntc = combo
        if delivery == "deco":
            return self.fx.exec_ns(source(kind, True, ntc), tcname)
        return self.import_hooked(tcname, kind, ntc)


# --------------------------------------------------------------------------- interpreter


def execute(fx, world, combo, steps, predecorate=True):
    """Run a script on the REAL implementation.

    steps: ("update", item, value) | ("decorate",) | ("call", [call names])
    Returns a list of raw records, one per (call step, subject, call name):
      dict(step, subj, call, group, eq, eq_noprobe, tce, d, p)
    plus the number of update steps that raised (recorded, judged by the caller).
    """
    delivery, kind, tcname, ntc = combo
    plain = fx.plain(kind)
    fam = battery_of(kind)
    recs = []

    def decorate(step):
        """Decoration itself raising (the plain source compiles and runs): recorded, judged by the
        caller when checking is off at that moment; the subject is then skipped by later calls."""
        try:
            return world.decorate(combo)
        except HarnessError:
            raise
        except Exception as e:  # noqa: BLE001
            recs.append(
                dict(step=step, subj=len(subjects), call="DECORATE", group="dec", eq=False, eq_noprobe=False, tce=False, cause_none=None,
                     d=f"decoration raised {type(e).__name__}: {str(e)[:200]}", p="the same source without jaxtyped compiles and runs", exc=type(e).__name__)
            )  # fmt: skip
            return None

    subjects = []
    if predecorate:
        subjects.append(decorate(0))
    for i, st in enumerate(steps):
        if st[0] == "update":
            try:
                fx.config.update(st[1], st[2])
            except Exception as e:  # noqa: BLE001  (every script value is an accepted spelling)
                recs.append(
                    dict(
                        step=i,
                        subj=0,
                        call="UPDATE",
                        group="u",
                        eq=False,
                        eq_noprobe=False,
                        tce=False,
                        cause_none=None,
                        d=f"config.update({st[1]!r}, {st[2]!r}) raised {type(e).__name__}",
                        p="an accepted spelling",
                        exc=type(e).__name__,
                        value=vrepr(st[2]),
                    )
                )
                break  # the rest of the script would run from a state the model does not describe
        elif st[0] == "decorate":
            subjects.append(decorate(i))
        else:
            for call in st[1]:
                spec = fam[call]
                if spec is None:
                    continue
                group, mode, _ = spec
                for si, ns in enumerate(subjects):
                    if ns is None:
                        continue
                    p = fx.observe(fx.thunk(kind, plain, call), mode)
                    d = fx.observe(fx.thunk(kind, ns, call), mode)
                    recs.append(
                        dict(
                            step=i,
                            subj=si,
                            call=call,
                            group=group,
                            eq=(d[0] == p[0] and d[1] == p[1]),
                            eq_noprobe=(d[0] == p[0] and [e[:2] for e in d[1]] == [e[:2] for e in p[1]]),
                            tce=(d[0] == ("exc", "TypeCheckError")),
                            cause_none=d[2],
                            d=(d[0], d[1]),  # text on demand: txt()
                            p=(p[0], p[1]),
                            body_runs_plain=len(p[1]),
                        )
                    )
    return recs


def txt(x):
    return x if isinstance(x, str) else repr(x)


def judge(rec, disabled: bool, ntc, judge_enabled=True):
    """-> reason | None.  judge_enabled=False (typechecker=None: nothing checks): an ill-typed call
    made while checking is ON is not required to raise."""
    if rec["group"] == "u":
        return f"update-{rec['value']}-raised-{rec['exc']}"
    off = disabled or ntc is not None
    if rec["group"] == "dec":
        # decorating while checking is off must leave working code behind (the undecorated source
        # does); a decoration failing while checking is ON is not this property's business
        return f"decoration-raised-{rec['exc']}" if off else None
    if off:
        if not rec["eq"]:
            return ("ntc-differs" if (ntc is not None and not disabled) else "disabled-differs")
        return None
    g = rec["group"]
    if g in ("w", "e"):
        if not rec["eq_noprobe"]:
            return "enabled-welltyped-differs"
    elif g in ("i", "r", "ei") and judge_enabled:
        if not rec["tce"]:
            return "enabled-illtyped-not-TypeCheckError"
    return None  # 'n' while enabled: statement silent


def combo_str(combo):
    holder, role, names = split_kind(combo[1])
    kind = holder if role is None else (f"{holder}~{role}~{names[0]}" if role in SINGLE_ROLES else f"{holder}~{role}")
    return f"{combo[0]}:{kind}:{combo[2]}:ntc-{combo[3] or 'none'}"


def judges_enabled(combo):
    return combo[2] != "none"


# --------------------------------------------------------------------------- part A


def history_steps(ops):
    steps = []
    for i, op in enumerate(ops):
        if op == "ON":
            steps.append(("update", D_ITEM, ON_SPELL[i % len(ON_SPELL)]))
        elif op == "OFF":
            steps.append(("update", D_ITEM, OFF_SPELL[i % len(OFF_SPELL)]))
        elif op == "DEC":
            steps.append(("decorate",))
        else:
            steps.append(("call", [CALL_OF_OP[op]]))
    return steps


def history_model(ops):
    """Reference model: per step, the flag BEFORE executing it (calls read it), and
    per subject whether it was decorated while disabled."""
    flag = False
    flags, dec_flags = [], [False]
    ever = False
    evers = []
    for op in ops:
        flags.append(flag)
        evers.append(ever)
        if op == "ON":
            flag = True
            ever = True
        elif op == "OFF":
            flag = False
        elif op == "DEC":
            dec_flags.append(flag)
    return flags, dec_flags, evers


def history_states(ops):
    """Abstract states visited: (switch, decoration-time switch of every callable)."""
    flag, decs, out = False, [False], [(False, (False,))]
    for op in ops:
        if op == "ON":
            flag = True
        elif op == "OFF":
            flag = False
        elif op == "DEC":
            decs.append(flag)
        out.append((flag, tuple(decs)))
    return out


def run_history(fx, world, combo, ops, stack):
    fx.restore()
    try:
        if stack:
            fx.config.update(S_ITEM, True)
        recs = execute(fx, world, combo, history_steps(ops))
    finally:
        fx.restore()
    flags, dec_flags, evers = history_model(ops)
    ntc = combo[3]
    out = []
    for r in recs:
        dis = flags[r["step"]]
        reason = judge(r, dis, ntc, judges_enabled(combo))
        off = dis or ntc is not None
        nontrivial = (off and r["group"] in ("i", "r", "n")) or (
            not off and r["group"] in ("i", "r") and (evers[r["step"]] or dec_flags[r["subj"]])
        )
        out.append((r, dis, reason, nontrivial))
    return out


def _job_hist(job):
    fx = get_fx()
    combo = tuple(job["combo"])
    stack = job["stack"]
    hs = all_histories(job["maxlen"])
    st = dict(evaluations=0, nontrivial=0, histories=0, ops=0, decorations=0, stack_cause_checked=0, stack_cause_inconsistent=0)
    states = set()
    viols, samples = [], []
    try:
        with World(fx, need_hook=(combo[0] == "hook")) as w:
            for idx in job["idx"]:
                ops = hs[idx]
                res = run_history(fx, w, combo, ops, stack)
                st["histories"] += 1
                st["ops"] += len(ops)
                st["decorations"] += 1 + ops.count("DEC")
                states.update(history_states(ops))
                for r, dis, reason, nontrivial in res:
                    st["evaluations"] += 1
                    st["nontrivial"] += bool(nontrivial)
                    if r["tce"] and r["cause_none"] is not None:
                        st["stack_cause_checked"] += 1
                        st["stack_cause_inconsistent"] += r["cause_none"] != bool(stack)
                    if reason and len(viols) < 40:
                        viols.append(
                            Violation(
                                key=f"C19:hist:{combo_str(combo)}:stack-{int(stack)}:{'-'.join(ops)}:op{r['step']}:subj{r['subj']}:{reason}",
                                what=f"history {'-'.join(ops)} on {combo_str(combo)}: at op {r['step']} (switch {'on=disabled' if dis else 'off=checking'}) "
                                f"call {r['call']} on callable #{r['subj']}: decorated {r['d']} vs undecorated {r['p']} [{reason}]",
                                replay=dict(part="hist", combo=list(combo), stack=stack, ops=list(ops), step=r["step"], subj=r["subj"]),
                            ).to_json()
                        )
                    if nontrivial and len(samples) < 2 and len(ops) >= 3 and "ON" in ops:
                        samples.append(dict(part="hist", combo=combo_str(combo), ops="-".join(ops), step=r["step"], subj=r["subj"], disabled=dis, decorated=txt(r["d"]), undecorated=txt(r["p"])))
    finally:
        fx.restore()
    return dict(stats=st, states=sorted(map(repr, states)), viols=viols + fx.take_anomalies(), samples=samples)


# --------------------------------------------------------------------------- part B

SCRIPT_AFTER = [
    ("decorate",),
    ("call", "ALL"),
    ("update", D_ITEM, True),
    ("call", "ALL"),
    ("update", D_ITEM, False),
    ("call", "ALL"),
    ("update", D_ITEM, "1"),
    ("call", "ALL"),
    ("update", D_ITEM, "false"),
    ("call", "ALL"),
    ("update", S_ITEM, True),
    ("update", D_ITEM, "TRUE"),
    ("call", "ALL"),
    ("update", D_ITEM, "0"),
    ("call", "ALL"),
]
SCRIPT_BEFORE = [
    ("update", D_ITEM, True),
    ("decorate",),
    ("call", "ALL"),
    ("update", D_ITEM, False),
    ("call", "ALL"),
    ("update", D_ITEM, True),
    ("call", "ALL"),
]
SCRIPTS = {"after": SCRIPT_AFTER, "before": SCRIPT_BEFORE}


def script_flags(script, initial=False):
    flag, out = initial, []
    for st in script:
        out.append(flag)
        if st[0] == "update" and st[1].lower() == D_ITEM:
            flag = expected_value(st[2])
    return out


def expand(script, kind, ntc=None, initial=False):
    """Replace ("call", "ALL" | "SUB") by the battery of the kind.  Names part: at steps where
    checking is ON (and at SUB steps) the per-name calls are made for the first name only (the names
    are an input class of the switched-OFF path; with checking on every ill-typed call costs one
    typechecker decoration per parameter inside jaxtyping's error report)."""
    names = [c for c, spec in battery_of(kind).items() if spec is not None]
    if "~" not in kind or split_kind(kind)[1] in SINGLE_ROLES:
        return [("call", names) if (s[0] == "call" and s[1] in ("ALL", "SUB")) else s for s in script]
    n0 = split_kind(kind)[2][0]
    subset = [c for c in names if "=" not in c or c.split("=", 1)[1] == n0]
    on_min = [c for c in subset if "=" in c or c in ("none", "pos", "ill_pos", "e_raise")]
    flags = script_flags(script, initial)
    out = []
    for i, s in enumerate(script):
        if s[0] == "call" and s[1] in ("ALL", "SUB"):
            off = flags[i] or ntc is not None
            s = ("call", (names if s[1] == "ALL" else subset) if off else on_min)
        out.append(s)
    return out


def run_matrix_case(fx, world, combo, sname):
    script = SCRIPTS[sname]
    fx.restore()
    try:
        recs = execute(fx, world, combo, expand(script, combo[1], combo[3]), predecorate=False)
    finally:
        fx.restore()
    flags = script_flags(script)
    ntc = combo[3]
    je = judges_enabled(combo)
    named = "~" in combo[1]
    out = []
    for r in recs:
        dis = flags[r["step"]]
        reason = judge(r, dis, ntc, je)
        off = dis or ntc is not None
        earlier_on = any(flags[: r["step"]])
        # names part: every call made while checking is off counts (the keyword NAMES are the input
        # class under test; an ignored switch shows in the context probe of every body log)
        nontrivial = (off and (named or r["group"] in ("i", "r", "n", "e", "ei", "x"))) or (not off and je and r["group"] in ("i", "r", "ei") and earlier_on)
        out.append((r, dis, reason, nontrivial))
    return out


MATRIX_TCS = TCS + ("none",)  # 'none': jaxtyped(typechecker=None), the old-style wrapper (a binding context only)


def matrix_combos():
    out = []
    for t in MATRIX_TCS:
        for kind in FAMILY:
            for ntc in (None,) + NTC_PLACEMENTS[("deco", kind)]:
                out.append(("deco", kind, t, ntc))
    for t in TCS:
        for kind in HOOK_KINDS:
            for ntc in (None,) + NTC_PLACEMENTS[("hook", kind)]:
                out.append(("hook", kind, t, ntc))
    return out


def _job_matrix(job):
    fx = get_fx()
    st = dict(evaluations=0, nontrivial=0, matrix_cases=0)
    viols, samples = [], []
    try:
        with World(fx) as w:
            for combo in job["combos"]:
                combo = tuple(combo)
                for sname in MATRIX_SCRIPTS:
                    st["matrix_cases"] += 1
                    for r, dis, reason, nontrivial in run_matrix_case(fx, w, combo, sname):
                        st["evaluations"] += 1
                        st["nontrivial"] += bool(nontrivial)
                        if reason and len(viols) < 60:
                            viols.append(
                                Violation(
                                    key=f"C19:matrix:{combo_str(combo)}:{sname}:step{r['step']}:{r['call']}:{reason}",
                                    what=f"{combo_str(combo)} switch toggled {sname} decoration, step {r['step']} (switch {'on=disabled' if dis else 'off=checking'}): "
                                    f"call {r['call']}: decorated {r['d']} vs undecorated {r['p']} [{reason}]",
                                    replay=dict(part="matrix", combo=list(combo), script=sname, step=r["step"], call=r["call"]),
                                ).to_json()
                            )
                        if nontrivial and r["group"] == "n" and len(samples) < 1:
                            samples.append(dict(part="matrix", combo=combo_str(combo), script=sname, step=r["step"], call=r["call"], disabled=dis, decorated=txt(r["d"]), undecorated=txt(r["p"])))
    finally:
        fx.restore()
    return dict(stats=st, viols=viols + fx.take_anomalies(), samples=samples)


# --------------------------------------------------------------------------- part N (names)

# ("call", "ALL"): the whole battery where checking is off, the reduced one where it is on;
# ("call", "SUB"): the reduced battery (per-name calls for the first name of the chunk only)
SCRIPTS["n-after"] = [
    ("decorate",),
    ("call", "ALL"),
    ("update", D_ITEM, True),
    ("call", "ALL"),
    ("update", D_ITEM, "false"),
    ("call", "ALL"),
]
SCRIPTS["n-before"] = [
    ("update", D_ITEM, "1"),
    ("decorate",),
    ("call", "ALL"),
    ("update", D_ITEM, False),
    ("call", "ALL"),
    ("update", D_ITEM, "TRUE"),
    ("call", "SUB"),
]
# no_type_check present: checking is off whatever the switch says
SCRIPTS["n-ntc"] = [
    ("decorate",),
    ("call", "ALL"),
    ("update", D_ITEM, True),
    ("call", "SUB"),
    ("update", D_ITEM, False),
    ("call", "SUB"),
]
SCRIPTS["n-ntc-before"] = [
    ("update", D_ITEM, True),
    ("decorate",),
    ("call", "SUB"),
    ("update", D_ITEM, False),
    ("call", "ALL"),
]


def name_scripts(ntc):
    return ("n-after", "n-before") if ntc is None else ("n-ntc", "n-ntc-before")


MATRIX_SCRIPTS = ("after", "before")
NAME_HOLDERS_DECO = (
    "def", "method", "classmethod_outer", "classmethod_inner", "staticmethod_outer", "staticmethod_inner", "dataclass", "lambda",
    "inst", "inst_slots", "boundmethod", "coro_def", "gen_def", "agen_def", "coro_method", "gen_classmethod_outer", "agen_staticmethod_inner",
)  # fmt: skip
NAME_HOLDERS_HOOK = ("def", "method", "classmethod_inner", "staticmethod_inner", "dataclass", "gen_def")
SINGLE_HOLDERS_QUICK = ("def",)
CHILD_NAME_HOLDERS = ("def", "method")
CHILD_NAME_TCS = ("typeguard", "none")


NAME_HOLDERS_DECO_QUICK = tuple(h for h in NAME_HOLDERS_DECO if h not in ("coro_method", "gen_classmethod_outer", "agen_staticmethod_inner"))
NAME_HOLDERS_HOOK_QUICK = ("def", "method")
NAME_BEARTYPE_HOLDERS_QUICK = ("def", "method", "inst_slots")
SINGLE_HOLDERS_THOROUGH = ("def", "method", "classmethod_outer", "staticmethod_inner", "dataclass", "lambda", "inst", "boundmethod", "coro_def", "gen_def")


def names_combos(names, quick):
    """-> (grouped combos, single-name combos).  Grouped: every chunk of the alphabet x role x
    holder x typechecker (typeguard / beartype / None) x no_type_check placement, explicit
    decorator and import hook.  Single: one name as THE required parameter.
    quick: the switched-off path does not depend on the typechecker beyond new-style / old-style
    (typechecker=None) wrapper, so beartype is kept for three holders only; fewer lazy / hooked holders."""
    chunks = name_chunks(names)
    grouped, single = [], []
    plan = (
        ("deco", NAME_HOLDERS_DECO_QUICK if quick else NAME_HOLDERS_DECO, MATRIX_TCS),
        ("hook", NAME_HOLDERS_HOOK_QUICK if quick else NAME_HOLDERS_HOOK, TCS),
    )
    for delivery, holders, tcs in plan:
        for h in holders:
            placements = (None,) + ntc_placements(delivery, h)
            h_tcs = tuple(t for t in tcs if not (quick and t == "beartype" and (delivery == "hook" or h not in NAME_BEARTYPE_HOLDERS_QUICK)))
            for role in holder_roles(h):
                if role in GROUP_ROLES:
                    for ch in chunks + ([ODD_KEYS] if role in ("vk", "va") else []):
                        for t in h_tcs:
                            for ntc in placements:
                                grouped.append((delivery, named_kind(h, role, ch), t, ntc))
                elif delivery == "deco" and h in (SINGLE_HOLDERS_QUICK if quick else SINGLE_HOLDERS_THOROUGH):
                    for n in names:
                        for t in (tuple(t for t in h_tcs if t != "beartype") if quick else h_tcs):
                            for ntc in (tuple(p for p in placements if p not in ("used", "used-above")) if quick else placements):
                                single.append((delivery, named_kind(h, role, (n,)), t, ntc))
    return grouped, single


CHILD_NONE_KINDS = ("def", "method", "inst", "inst_slots", "boundmethod")


def child_matrix_combos():
    """The environment children run the matrix with typechecker=None for five kinds only."""
    return [c for c in matrix_combos() if c[2] != "none" or c[1] in CHILD_NONE_KINDS]


def child_name_combos(names):
    return [("deco", named_kind(h, role, ch), t, None) for h in CHILD_NAME_HOLDERS for role in GROUP_ROLES for ch in name_chunks(names) for t in CHILD_NAME_TCS]


def names_key(combo, sname, r, reason):
    return f"C19:names:{combo_str(combo)}:{sname}:step{r['step']}:{r['call']}:{reason}"


def _job_names(job):
    fx = get_fx()
    st = dict(evaluations=0, nontrivial=0, names_cases=0, names_decorations=0, names_calls_off=0, names_keyword_names_off=0)
    viols, samples = [], []
    combos = [tuple(c) for c in job["combos"]]
    extra = [(c[2], c[1], c[3]) for c in combos if c[0] == "hook"]
    try:
        with World(fx, need_hook=bool(extra), extra=extra) as w:
            for combo in combos:
                nkw = {c: len(spec[2][1]) for c, spec in battery_of(combo[1]).items() if spec is not None}
                for sname in name_scripts(combo[3]):
                    st["names_cases"] += 1
                    st["names_decorations"] += 1
                    for r, dis, reason, nontrivial in run_matrix_case(fx, w, combo, sname):
                        st["evaluations"] += 1
                        st["nontrivial"] += bool(nontrivial)
                        if dis or combo[3] is not None:
                            st["names_calls_off"] += 1
                            st["names_keyword_names_off"] += nkw.get(r["call"], 0)
                        if reason and len(viols) < 12:
                            viols.append(
                                Violation(
                                    key=names_key(combo, sname, r, reason),
                                    what=f"{combo_str(combo)} (parameter / keyword names from the wrapper's own vocabulary), switch toggled {sname} decoration, step {r['step']} "
                                    f"(switch {'on=disabled' if dis else 'off=checking'}): call {r['call']}: decorated {txt(r['d'])[:600]} vs undecorated {txt(r['p'])[:600]} [{reason}]",
                                    replay=dict(part="names", combo=list(combo), script=sname, step=r["step"], call=r["call"]),
                                ).to_json()
                            )
                        if nontrivial and dis and r["call"] in ("kw=fn", "key=kwargs") and len(samples) < 1:
                            samples.append(dict(part="names", combo=combo_str(combo), script=sname, step=r["step"], call=r["call"], disabled=dis, decorated=txt(r["d"])[:400], undecorated=txt(r["p"])[:400]))
    finally:
        fx.restore()
    return dict(stats=st, viols=viols + fx.take_anomalies(), samples=samples)


def _job_dc(job):
    """Don't-care zone, observed and reported but never judged: no_type_check applied
    to the classmethod / staticmethod OBJECT (above '@jaxtyped @classmethod', or between
    the two).  Python marks the descriptor object, not a function; typing.get_type_hints
    ignores such a mark as well."""
    fx = get_fx()
    st = dict(evaluations=0, nontrivial=0, dc_ntc_on_descriptor_object_cases=0, dc_ntc_on_descriptor_object_checks_still_on=0)
    try:
        with World(fx, need_hook=False) as w:
            for t in TCS:
                for kind in ("classmethod_outer", "staticmethod_outer"):
                    for ntc in ("above", "mid"):
                        fx.restore()
                        for r in execute(fx, w, ("deco", kind, t, ntc), [("call", ["I", "R"])]):
                            st["dc_ntc_on_descriptor_object_cases"] += 1
                            st["dc_ntc_on_descriptor_object_checks_still_on"] += bool(r["tce"])
    finally:
        fx.restore()
    return dict(stats=st, viols=fx.take_anomalies(), samples=[])


# --------------------------------------------------------------------------- part E (lazy callables)

LOPS = ("ON", "OFF", "C", "S")
LAZY_HIST_CALLS = ("W", "I", "N")  # one C op makes three objects: well-typed, ill-typed, non-binding argument list
LAZY_TCS = TCS + ("none",)  # 'none': jaxtyped(typechecker=None) - a binding context only, nothing is checked

# (name, switch state at decoration, ops); "C" = create one object per call of the battery
LAZY_TEMPLATES = (
    ("off", True, ("C",)),
    ("off-on@0", True, ("C", "OFF")),
    ("off-on@1", True, ("C", "S", "OFF")),
    ("off-on@2", True, ("C", "S", "S", "OFF")),
    ("off-on@0-off@1", True, ("C", "OFF", "S", "ON")),
    ("on", False, ("C",)),
    ("on-off@0", False, ("C", "ON")),
    ("on-off@1", False, ("C", "S", "ON")),
    ("decorated-off-then-on", True, ("OFF", "C")),
    ("decorated-off-then-on-off", True, ("OFF", "ON", "C")),
    ("decorated-on-then-off", False, ("ON", "C")),
    ("decorated-on-then-off-on@0", False, ("ON", "C", "OFF")),
    ("decorated-on-then-off-on", False, ("ON", "OFF", "C")),
)
# in the environment children the switch state at decoration is what the environment provides
CHILD_LAZY_TEMPLATES = (
    ("env", ("C",)),
    ("env-off@0", ("C", "OFF")),
    ("env-on@0", ("C", "ON")),
    ("env-off@1", ("C", "S", "OFF")),
    ("env-on@1", ("C", "S", "ON")),
    ("off-first", ("OFF", "C")),
    ("on-first", ("ON", "C")),
    ("on-first-off@0", ("ON", "C", "OFF")),
    ("off-first-on@0", ("OFF", "C", "ON")),
)
CHILD_LAZY_COMBOS = (
    [("deco", k, t, None) for t in LAZY_TCS for k in ("coro_def", "gen_def", "agen_def", "coro_method", "gen_classmethod_outer", "agen_staticmethod_inner")]
    + [("deco", "coro_def", t, n) for t in TCS for n in ("above", "below")]
    + [("hook", k, t, None) for t in TCS for k in ("gen_def", "coro_def")]
)
MAX_STEPS = 12  # the longest body needs 4


def lazy_histories(maxlen):
    return [h for n in range(1, maxlen + 1) for h in itertools.product(LOPS, repeat=n)]


def lazy_ops(hist):
    return tuple("C:" + ",".join(LAZY_HIST_CALLS) if o == "C" else o for o in hist)


def lazy_judges_enabled(combo):
    """Is 'an ill-typed call made while checking is on raises TypeCheckError' required?
    Not for typechecker=None (nothing checks), not for hooked `async def` (the import hook
    does not instrument it: there is no checking to restore)."""
    delivery, kind, tcname, _ = combo
    return tcname != "none" and not (delivery == "hook" and flavour(kind) in ("coro", "agen"))


class Live:
    """One coroutine / generator / async generator, driven by hand one step at a time."""

    def __init__(self, fx, fl, obj):
        self.fx, self.fl, self.obj = fx, fl, obj
        self.pending = None  # the asend() awaitable in flight (async generators)
        self.started = False
        self.done = False

    def step(self):
        """First step: send(None) (the only legal one); later steps send the object SENT in."""
        fx = self.fx
        sent = fx.objs["SENT"] if self.started else None
        self.started = True
        try:
            if self.fl in ("coro", "gen"):
                return ("susp" if self.fl == "coro" else "yield", fx.token(self.obj.send(sent)))
            resumed = self.pending is not None
            if not resumed:
                self.pending = self.obj.asend(sent)
            try:
                v = self.pending.send(fx.objs["SENT"] if resumed else None)
            except BaseException:
                self.pending = None
                raise
            return ("susp", fx.token(v))
        except StopIteration as e:
            if self.fl == "agen":
                return ("yield", fx.token(e.value))
            self.done = True
            return ("ret", fx.token(e.value))
        except StopAsyncIteration:
            self.done = True
            return ("end",)
        except Exception as e:  # noqa: BLE001
            self.done = True
            return ("exc", fx.exc_token(e))

    def close(self):
        try:
            if self.fl == "agen" and hasattr(self.obj, "aclose"):
                if self.pending is not None:
                    self.pending.close()
                c = self.obj.aclose()
                try:
                    c.send(None)
                except BaseException:  # noqa: BLE001
                    pass
            elif hasattr(self.obj, "close"):
                self.obj.close()
        except BaseException:  # noqa: BLE001
            pass


def _lazy_moment(fx, mode, fn):
    """Run one moment (the call, or one step) and return (event, body log of that moment)."""
    fx.log.clear()
    fx.mode = mode
    try:
        ev = fn()
    finally:
        fx.mode = "x"
    return ev, tuple(fx.log)


def _lazy_call(fx, kind, ns, call, mode):
    box = []

    def go():
        try:
            r = fx.thunk(kind, ns, call)()
        except Exception as e:  # noqa: BLE001
            return ("exc", fx.exc_token(e))
        box.append(Live(fx, flavour(kind), r))
        return ("ret", fx.token(r))

    ev, log = _lazy_moment(fx, mode, go)
    return (ev, log), (box[0] if box else None)


def _lazy_step(fx, live, mode):
    if live is None or live.done:
        return (("dead",), ())
    return _lazy_moment(fx, mode, live.step)


def _noprobe(obs):
    return (obs[0], [e[:2] for e in obs[1]])


def _lazy_event(phase, at, flag, d, p):
    eq = d == p
    return dict(phase=phase, at=at, flag=flag, eq=eq, eq_noprobe=eq or _noprobe(d) == _noprobe(p), tce=d[0] == ("exc", "TypeCheckError"), d=repr(d), p=repr(p), body_runs_plain=len(p[1]))


def run_lazy(fx, world, combo, initial, ops, managed=True):
    """Execute one lazy history on the REAL implementation.

    The callable is decorated with the switch in state `initial`; ops: 'ON' | 'OFF' |
    'S' (every live object, decorated and undecorated, is driven one step) |
    'C:<call>[,<call>..]' (one new object per named argument list).  At the end every
    live object is driven to exhaustion.  -> list of pair records
    dict(obj, call, group, created_at, flag_at_create, events=[...]).
    managed=False: the caller owns the switch state before / after (environment child)."""
    delivery, kind, tcname, ntc = combo
    if managed:
        fx.restore()
    pairs, recs = [], []
    try:
        if managed and initial:
            fx.config.update(D_ITEM, True)
        ns = world.decorate(combo)
        plain = fx.plain(kind)
        flag = bool(initial)

        def step_all(at):
            for pr in pairs:
                if pr["live"]:
                    p = _lazy_step(fx, pr["p"], pr["mode"])
                    d = _lazy_step(fx, pr["d"], pr["mode"])
                    pr["n"] += 1
                    pr["rec"]["events"].append(_lazy_event(f"step{pr['n']}", at, flag, d, p))
                    pr["live"] = any(x is not None and not x.done for x in (pr["d"], pr["p"]))
                    if pr["n"] > MAX_STEPS:
                        raise HarnessError(f"lazy object not exhausted after {MAX_STEPS} steps: {combo} {ops}")

        for i, op in enumerate(ops):
            if op in ("ON", "OFF"):
                v = (ON_SPELL if op == "ON" else OFF_SPELL)[i % 5]
                try:
                    fx.config.update(D_ITEM, v)
                except Exception as e:  # noqa: BLE001  (an accepted spelling)
                    recs.append(dict(obj=-1, call="UPDATE", group="u", created_at=i, flag_at_create=flag, events=[], exc=type(e).__name__, value=vrepr(v)))
                    break
                flag = op == "ON"
            elif op == "S":
                step_all(i)
            else:
                for call in op[2:].split(","):
                    group, mode, _ = F1[call]
                    p, p_live = _lazy_call(fx, kind, plain, call, mode)
                    d, d_live = _lazy_call(fx, kind, ns, call, mode)
                    rec = dict(obj=len(pairs), call=call, group=group, created_at=i, flag_at_create=flag, events=[_lazy_event("call", i, flag, d, p)])
                    pairs.append(dict(rec=rec, mode=mode, d=d_live, p=p_live, n=0, live=(d_live is not None or p_live is not None)))
                    recs.append(rec)
        else:
            while any(pr["live"] for pr in pairs):
                step_all("end")
    finally:
        for pr in pairs:
            for x in (pr["d"], pr["p"]):
                if x is not None and not x.done:
                    x.close()
        if managed:
            fx.restore()
    return recs


def judge_lazy(rec, ntc, judge_enabled=True):
    """-> (phase, reason) | None.  A call made while checking is off (switch or no_type_check)
    must equal the undecorated code at the call and at every later step, whatever the switch
    does afterwards.  A call made while checking is on: a well-typed one (or one whose body
    raises) must give the same results; an ill-typed one must raise TypeCheckError at some
    moment provided checking stayed on for its whole life (the statement does not say at which
    moment a lazy callable is checked: don't-care when the switch moved meanwhile)."""
    if rec["group"] == "u":
        return ("update", f"update-{rec['value']}-raised-{rec['exc']}")
    off = rec["flag_at_create"] or ntc is not None
    evs = rec["events"]
    if off:
        for ev in evs:
            if not ev["eq"]:
                return (ev["phase"], "ntc-differs" if (ntc is not None and not rec["flag_at_create"]) else "disabled-differs")
        return None
    g = rec["group"]
    if g in ("w", "e"):
        for ev in evs:
            if not ev["eq_noprobe"]:
                return (ev["phase"], "enabled-welltyped-differs")
    elif g in ("i", "ei") and judge_enabled:
        if not any(ev["flag"] for ev in evs) and not any(ev["tce"] for ev in evs):
            return ("life", "enabled-illtyped-not-TypeCheckError")
    return None


def lazy_nontrivial(rec, ntc, earlier_on):
    off = rec["flag_at_create"] or ntc is not None
    if off:
        return rec["group"] in ("i", "r", "n", "e", "ei", "x")
    return rec["group"] in ("i", "ei") and earlier_on and not any(ev["flag"] for ev in rec["events"])


def lazy_flip_during_life(rec):
    return any(ev["flag"] != rec["flag_at_create"] for ev in rec["events"])


def _lazy_stats():
    return dict(evaluations=0, nontrivial=0, lazy_histories=0, lazy_objects=0, lazy_events=0, lazy_objects_switch_moved_during_life=0, lazy_call_time_exceptions=0, lazy_enabled_illtyped_dontcare=0, lazy_hook_async_objects=0, lazy_hook_async_checked=0)


def _lazy_account(st, combo, rec, initial, ops_before_on):
    n = len(rec["events"])
    st["evaluations"] += n
    st["lazy_objects"] += 1
    st["lazy_events"] += n
    if lazy_nontrivial(rec, combo[3], ops_before_on or initial):
        st["nontrivial"] += n
    st["lazy_objects_switch_moved_during_life"] += lazy_flip_during_life(rec)
    if rec["events"] and rec["events"][0]["p"].startswith("(('exc'"):
        st["lazy_call_time_exceptions"] += 1
    if rec["group"] in ("i", "ei") and not rec["flag_at_create"] and combo[3] is None and lazy_flip_during_life(rec):
        st["lazy_enabled_illtyped_dontcare"] += 1
    if combo[0] == "hook" and flavour(combo[1]) in ("coro", "agen") and rec["group"] == "i" and not rec["flag_at_create"] and combo[3] is None:
        st["lazy_hook_async_objects"] += 1
        st["lazy_hook_async_checked"] += any(ev["tce"] for ev in rec["events"])


def lazy_what(combo, initial, ops, rec, phase, reason):
    ev = next((e for e in rec["events"] if e["phase"] == phase), rec["events"][-1] if rec["events"] else None)
    trail = "; ".join(f"{e['phase']}@op{e['at']}[{'off' if e['flag'] else 'on'}]: decorated {e['d']} vs undecorated {e['p']}" for e in rec["events"][:6])
    return (
        f"lazy {combo_str(combo)} decorated while checking {'off' if initial else 'on'}, ops {'-'.join(ops)}: object #{rec['obj']} (call {rec['call']}, made while "
        f"checking {'off' if rec['flag_at_create'] else 'on'}) differs at {phase} [{reason}]" + (f": decorated {ev['d']} vs undecorated {ev['p']}" if ev and phase != "life" else "") + f" || whole life: {trail}"
    )


def _job_lazy_hist(job):
    fx = get_fx()
    combo, initial = tuple(job["combo"]), job["initial"]
    hs = lazy_histories(job["maxlen"])
    je = lazy_judges_enabled(combo)
    st = _lazy_stats()
    viols, samples = [], []
    try:
        with World(fx, need_hook=(combo[0] == "hook")) as w:
            for idx in job["idx"]:
                hist = hs[idx]
                ops = lazy_ops(hist)
                st["lazy_histories"] += 1
                for rec in run_lazy(fx, w, combo, initial, ops):
                    seen_on = initial or "ON" in hist[: rec["created_at"]]
                    _lazy_account(st, combo, rec, initial, seen_on)
                    verdict = judge_lazy(rec, combo[3], je)
                    if verdict and len(viols) < 40:
                        phase, reason = verdict
                        viols.append(
                            Violation(
                                key=f"C19:lazy:{combo_str(combo)}:decorated-{'off' if initial else 'on'}:{'-'.join(hist)}:obj{rec['obj']}:{phase}:{reason}",
                                what=lazy_what(combo, initial, hist, rec, phase, reason),
                                replay=dict(part="lazy-hist", combo=list(combo), initial=initial, ops=list(hist), obj=rec["obj"]),
                            ).to_json()
                        )
                    if len(samples) < 1 and rec["flag_at_create"] and rec["group"] == "i" and lazy_flip_during_life(rec) and len(rec["events"]) >= 3:
                        samples.append(dict(part="lazy-hist", combo=combo_str(combo), decorated_while="off" if initial else "on", ops="-".join(hist), obj=rec["obj"], events=[(e["phase"], e["at"], "off" if e["flag"] else "on", e["d"]) for e in rec["events"]]))
    finally:
        fx.restore()
    return dict(stats=st, viols=viols + fx.take_anomalies(), samples=samples)


def lazy_matrix_combos():
    out = []
    for t in LAZY_TCS:
        for kind in LAZY_KINDS:
            for ntc in (None,) + ntc_placements("deco", kind):
                out.append(("deco", kind, t, ntc))
    for t in TCS:
        for kind in HOOK_LAZY_KINDS:
            for ntc in (None,) + ntc_placements("hook", kind):
                out.append(("hook", kind, t, ntc))
    return out


def template_ops(ops):
    return tuple("C:" + ",".join(c for c in F1) if o == "C" else o for o in ops)


def run_lazy_template(fx, world, combo, tname):
    _, initial, ops = next(t for t in LAZY_TEMPLATES if t[0] == tname)
    return initial, ops, run_lazy(fx, world, combo, initial, template_ops(ops))


def _job_lazy_matrix(job):
    fx = get_fx()
    st = _lazy_stats()
    st["lazy_matrix_cases"] = 0
    viols, samples = [], []
    try:
        with World(fx, need_hook=any(c[0] == "hook" for c in job["combos"])) as w:
            for combo in job["combos"]:
                combo = tuple(combo)
                je = lazy_judges_enabled(combo)
                for tname, _, _ in LAZY_TEMPLATES:
                    st["lazy_matrix_cases"] += 1
                    st["lazy_histories"] += 1
                    initial, ops, recs = run_lazy_template(fx, w, combo, tname)
                    for rec in recs:
                        seen_on = initial or "ON" in ops[: rec["created_at"]]
                        _lazy_account(st, combo, rec, initial, seen_on)
                        verdict = judge_lazy(rec, combo[3], je)
                        if verdict and len(viols) < 60:
                            phase, reason = verdict
                            viols.append(
                                Violation(
                                    key=f"C19:lazy-matrix:{combo_str(combo)}:{tname}:{rec['call']}:{phase}:{reason}",
                                    what=lazy_what(combo, initial, ops, rec, phase, reason),
                                    replay=dict(part="lazy-matrix", combo=list(combo), template=tname, call=rec["call"]),
                                ).to_json()
                            )
                        if len(samples) < 1 and rec["group"] == "n" and rec["flag_at_create"] and tname == "off-on@0":
                            samples.append(dict(part="lazy-matrix", combo=combo_str(combo), template=tname, call=rec["call"], events=[(e["phase"], e["at"], "off" if e["flag"] else "on", e["d"], e["p"]) for e in rec["events"]]))
    finally:
        fx.restore()
    return dict(stats=st, viols=viols + fx.take_anomalies(), samples=samples)


# --------------------------------------------------------------------------- part C


def read_flags(cfg):
    return (cfg.jaxtyping_disable, cfg.jaxtyping_remove_typechecker_stack)


def judge_update(item_lower, name, value, prior, outcome, before, after):
    """Allowed outcomes by the statement.  before/after = (disable, stack) attribute
    pairs.  Returns reason or None."""
    idx = 0 if item_lower == D_ITEM else 1
    exp = expected_value(value)
    unchanged = after == before
    is_bool_pair = all(isinstance(x, bool) for x in after)
    accepted_as = None
    if outcome == "ok":
        accepted_as = after[idx]
    name_rejected_ok = name != item_lower and outcome == "ValueError" and unchanged  # item-name case: statement silent
    if not is_bool_pair:
        return f"flags-not-bool:{after!r}"
    if outcome not in ("ok", "ValueError"):
        return f"raised-{outcome}"
    if outcome == "ok" and after[1 - idx] != before[1 - idx]:
        return "other-switch-changed"
    if outcome == "ValueError" and not unchanged:
        return "rejected-but-state-changed"
    if exp == "DC":
        if outcome == "ok" and accepted_as != bool(value):
            return f"accepted-with-meaning-{accepted_as}"
        return None
    if exp == "ValueError":
        if outcome != "ValueError":
            return f"accepted-as-{accepted_as}"
        return None
    # exp is a bool: must be accepted with that meaning
    if outcome == "ok":
        if accepted_as is not exp:
            return f"accepted-with-meaning-{accepted_as}"
        return None
    if name_rejected_ok:
        return None
    return "rejected-ValueError"


def do_update(cfg, name, value):
    try:
        cfg.update(name, value)
    except ValueError:
        return "ValueError"
    except Exception as e:  # noqa: BLE001
        return type(e).__name__
    return "ok"


def _job_update(job):
    fx = get_fx()
    cfg = fx.config
    item = job["item"]
    values = [dec_value(v) for v in job["values"]]
    st = dict(evaluations=0, nontrivial=0, updates=0, name_casings=0, behavioural_probes=0, dontcare_updates=0, name_variant_rejected=0)
    viols, samples = [], []
    try:
        fx.restore()
        names = job["names"]
        st["name_casings"] = len(names)
        for name in names:
            for prior in (False, True):
                for v in values:
                    cfg.update(item, prior)
                    before = read_flags(cfg)
                    oc = do_update(cfg, name, v)
                    after = read_flags(cfg)
                    st["updates"] += 1
                    st["evaluations"] += 1
                    exp = expected_value(v)
                    if exp == "DC":
                        st["dontcare_updates"] += 1
                    if oc == "ValueError" and isinstance(exp, bool):
                        st["name_variant_rejected"] += 1
                    # non-trivial: the update must change the state, or must be rejected
                    if exp == "ValueError" or (isinstance(exp, bool) and exp != prior):
                        st["nontrivial"] += 1
                    reason = judge_update(item, name, v, prior, oc, before, after)
                    if reason and len(viols) < 40:
                        viols.append(
                            Violation(
                                key=f"C19:update:{item}:{'exact' if name == item else 'case-variant'}:{vrepr(v)}:{reason}",
                                what=f"config.update({name!r}, {v!r}) from {item}={prior}: outcome {oc}, flags {before} -> {after}; statement expects {exp} [{reason}]",
                                replay=dict(part="update", item=item, name=name, value=enc_value(v), prior=prior),
                            ).to_json()
                        )
                    fx.restore()
        # behavioural probes: the attribute is what the wrapper obeys
        if job.get("behaviour"):
            with World(fx, need_hook=False) as w:
                combo = ("deco", "def", "typeguard", None)
                ns = w.decorate(combo)
                plain = fx.plain("def")
                for name in job["behaviour"]:
                    for prior in (False, True):
                        for v in values:
                            cfg.update(item, prior)
                            oc = do_update(cfg, name, v)
                            exp = expected_value(v)
                            p = fx.observe(fx.thunk("def", plain, "I"), "x")
                            d = fx.observe(fx.thunk("def", ns, "I"), "x")
                            behaves_disabled = d[:2] == p[:2]
                            raises = d[0] == ("exc", "TypeCheckError")
                            st["behavioural_probes"] += 1
                            st["evaluations"] += 1
                            if item == D_ITEM:
                                if oc == "ok" and isinstance(exp, bool):
                                    want = exp
                                elif oc == "ok" and exp == "DC":
                                    want = bool(v)
                                else:
                                    want = prior  # rejected: state must be unchanged
                            else:
                                want = False  # the stack switch must never disable checking
                            bad = (behaves_disabled != want) or (raises == want)
                            if bad and len(viols) < 60:
                                viols.append(
                                    Violation(
                                        key=f"C19:update-behaviour:{item}:{'exact' if name == item else 'case-variant'}:{vrepr(v)}:prior-{prior}",
                                        what=f"after config.update({name!r}, {v!r}) [{oc}] from {item}={prior}: ill-typed call gives {d[0]} (undecorated {p[0]}); "
                                        f"checking should be {'off' if want else 'on'}",
                                        replay=dict(part="update", item=item, name=name, value=enc_value(v), prior=prior),
                                    ).to_json()
                                )
                            if len(samples) < 1 and item == D_ITEM and exp is True and not prior:
                                samples.append(dict(part="update", call=f"config.update({name!r}, {v!r})", outcome=oc, flags_after=repr(read_flags(cfg)), illtyped_call=repr(d[0]), undecorated=repr(p[0])))
                            fx.restore()
    finally:
        fx.restore()
    return dict(stats=st, viols=viols + fx.take_anomalies(), samples=samples)


# --------------------------------------------------------------------------- part D

CHILD_SCRIPT = [
    ("decorate",),
    ("call", "ALL"),  # as provided by the environment
    ("update", D_ITEM, False),
    ("call", "ALL"),
    ("update", D_ITEM, True),
    ("call", "ALL"),
    ("update", D_ITEM, False),
    ("call", "ALL"),
]


def _child_main():
    """Runs in a fresh interpreter whose environment carries the switch values."""
    import warnings

    warnings.simplefilter("ignore")
    out = {}
    try:
        common.bind_repo()
    except HarnessError:
        raise
    except ValueError as e:
        out = {"import": "ValueError", "msg": str(e)[:160]}
    except Exception as e:  # noqa: BLE001
        out = {"import": type(e).__name__, "msg": str(e)[:160]}
    else:
        fx = get_fx()
        out = {"import": "ok", "flags": list(read_flags(fx.config)), "cases": {}}
        with World(fx) as w:
            env_flag = out["flags"][0]
            out["names"] = name_alphabet("decorator")[1]
            for combo in child_matrix_combos() + child_name_combos(name_alphabet("decorator")[0]):
                try:
                    recs = execute(fx, w, combo, expand(CHILD_SCRIPT, combo[1], combo[3], initial=bool(env_flag)), predecorate=False)
                finally:
                    # leave the environment-provided value for the next combo
                    try:
                        fx.config.update(D_ITEM, out["flags"][0])
                    except Exception:  # noqa: BLE001
                        pass
                    if getattr(fx.config, D_ITEM) is not out["flags"][0]:
                        setattr(fx.config, D_ITEM, out["flags"][0])
                keep = ("step", "call", "group", "eq", "eq_noprobe", "tce", "d", "p", "exc", "value")
                for r in recs:  # keep the report small: texts only where the two sides differ
                    r["d"], r["p"] = ("(equal)", "(equal)") if r["eq"] else (txt(r["d"]), txt(r["p"]))
                out["cases"][json.dumps(combo)] = [{k: r[k] for k in keep if k in r} for r in recs]
            # lazy callables under the environment-provided state
            out["lazy"] = []
            env_flag = out["flags"][0]
            for combo in CHILD_LAZY_COMBOS:
                for tname, ops in CHILD_LAZY_TEMPLATES:
                    try:
                        recs = run_lazy(fx, w, combo, env_flag, template_ops(ops), managed=False)
                    finally:
                        try:
                            fx.config.update(D_ITEM, env_flag)
                        except Exception:  # noqa: BLE001
                            pass
                        if getattr(fx.config, D_ITEM) is not env_flag:
                            setattr(fx.config, D_ITEM, env_flag)
                    for r in recs:
                        for e in r["events"]:
                            if e["eq"]:  # keep the report small: texts only where the two sides differ
                                e["d"] = e["p"] = "(equal)"
                    out["lazy"].append(dict(combo=list(combo), template=tname, recs=recs))
    sys.stdout.write("\nC19CHILD " + json.dumps(out) + "\n")


def run_child(envset):
    env = {k: v for k, v in os.environ.items() if k not in ENV_OF.values()}
    for k, v in envset.items():
        if v is not None:
            env[k] = v
    env["VERIF_REPO"] = common.REPO
    env["PYTHONDONTWRITEBYTECODE"] = "1"
    env.setdefault("JAX_PLATFORMS", "cpu")
    code = f"import sys; sys.path.insert(0, {common.VERIF_DIR!r}); from vf.checks import c19; c19._child_main()"
    pr = subprocess.run([sys.executable, "-c", code], env=env, cwd=common.VERIF_DIR, capture_output=True, text=True, timeout=600)
    for line in pr.stdout.splitlines():
        if line.startswith("C19CHILD "):
            return json.loads(line[len("C19CHILD ") :])
    raise HarnessError(f"env child produced no report (rc={pr.returncode}): {pr.stderr[-600:]}")


def judge_child(envset, rep):
    """-> (list of (key, what, extra), evaluations, nontrivial)"""
    exp = {it: expected_value(envset.get(ENV_OF[it])) if envset.get(ENV_OF[it]) is not None else False for it in (D_ITEM, S_ITEM)}
    tag = ",".join(f"{k}={v!r}" for k, v in sorted(envset.items())) or "unset"
    bad = []
    ev = nt = 1
    if "ValueError" in exp.values():
        if rep["import"] != "ValueError":
            bad.append((f"C19:env:{tag}:import-{rep['import']}", f"environment {tag}: import jaxtyping gave {rep['import']} {rep.get('flags')}, the statement requires ValueError", {}))
        return bad, ev, nt
    if rep["import"] != "ok":
        bad.append((f"C19:env:{tag}:import-{rep['import']}", f"environment {tag}: import jaxtyping raised {rep['import']}: {rep.get('msg')}", {}))
        return bad, ev, nt
    want = [exp[D_ITEM], exp[S_ITEM]]
    if rep["flags"] != want:
        bad.append((f"C19:env:{tag}:flags-{rep['flags']}", f"environment {tag}: config flags (disable, remove_stack) = {rep['flags']}, expected {want}", {}))
    flags = script_flags(CHILD_SCRIPT, initial=exp[D_ITEM])
    for cj, recs in rep["cases"].items():
        combo = tuple(json.loads(cj))
        for r in recs:
            step, call, group, d, p = r["step"], r["call"], r["group"], r["d"], r["p"]
            dis = flags[step]
            reason = judge(r, dis, combo[3], judges_enabled(combo))
            ev += 1
            off = dis or combo[3] is not None
            if (off and ("~" in combo[1] or group in ("i", "r", "n", "e", "ei", "x"))) or (not off and judges_enabled(combo) and group in ("i", "r", "ei") and any(flags[:step])):
                nt += 1
            if reason:
                bad.append(
                    (
                        f"C19:env:{tag}:{combo_str(combo)}:step{step}:{call}:{reason}",
                        f"environment {tag}, {combo_str(combo)}, step {step} (switch {'on=disabled' if dis else 'off=checking'}), call {call}: decorated {d} vs undecorated {p} [{reason}]",
                        dict(combo=list(combo), step=step, call=call),
                    )
                )
    # lazy callables: the switch state at decoration is the environment-provided one
    templates = dict(CHILD_LAZY_TEMPLATES)
    for case in rep.get("lazy", []):
        combo, tname = tuple(case["combo"]), case["template"]
        ops = templates[tname]
        je = lazy_judges_enabled(combo)
        for r in case["recs"]:
            n = len(r["events"])
            ev += n
            if lazy_nontrivial(r, combo[3], bool(exp[D_ITEM]) or "ON" in ops[: r["created_at"]]):
                nt += n
            verdict = judge_lazy(r, combo[3], je)
            if verdict:
                phase, reason = verdict
                bad.append(
                    (
                        f"C19:env:{tag}:lazy:{combo_str(combo)}:{tname}:{r['call']}:{phase}:{reason}",
                        f"environment {tag}: " + lazy_what(combo, bool(exp[D_ITEM]), ops, r, phase, reason),
                        dict(lazy=dict(combo=list(combo), template=tname, call=r["call"])),
                    )
                )
    return bad, ev, nt


def env_cases():
    cases = []
    for it in (D_ITEM, S_ITEM):
        for v in ENV_VALUES:
            cases.append({ENV_OF[it]: v})
    cases.append({ENV_OF[D_ITEM]: "1", ENV_OF[S_ITEM]: "TRUE"})
    cases.append({ENV_OF[D_ITEM]: "False", ENV_OF[S_ITEM]: "1"})
    # the unset case appears twice above (once per variable); keep one
    seen, out = set(), []
    for c in cases:
        k = json.dumps({a: b for a, b in c.items() if b is not None}, sort_keys=True)
        if k not in seen:
            seen.add(k)
            out.append({a: b for a, b in c.items() if b is not None})
    return out


def _job_env(job):
    envset = job["env"]
    rep = run_child(envset)
    bad, ev, nt = judge_child(envset, rep)
    viols = [Violation(key=k, what=w, replay=dict(part="env", env=envset, **x)).to_json() for k, w, x in bad[:40]]
    sample = dict(part="env", env=envset, import_outcome=rep["import"], flags=rep.get("flags"), cases=len(rep.get("cases", {})), lazy_cases=len(rep.get("lazy", [])))
    return dict(stats=dict(evaluations=ev, nontrivial=nt, env_subprocesses=1, env_lazy_cases=len(rep.get("lazy", []))), viols=viols, samples=[sample] if envset.get(ENV_OF[D_ITEM]) == "tRuE" else [])


# --------------------------------------------------------------------------- driver


def _job(job):
    import warnings

    warnings.simplefilter("ignore")
    import resource
    import time

    def cpu():
        c = resource.getrusage(resource.RUSAGE_CHILDREN)
        return time.process_time() + c.ru_utime + c.ru_stime

    t0 = cpu()
    out = _job_dispatch(job)
    out["cpu_s"] = cpu() - t0
    return out


def _job_dispatch(job):
    return {"hist": _job_hist, "matrix": _job_matrix, "update": _job_update, "env": _job_env, "dc": _job_dc, "names": _job_names, "lazy-hist": _job_lazy_hist, "lazy-matrix": _job_lazy_matrix}[job["part"]](job)


HIST_COMBOS_QUICK = [
    ("deco", "def", None),
    ("deco", "method", None),
    ("deco", "classmethod_outer", None),
    ("deco", "staticmethod_outer", None),
    ("deco", "property_outer", None),
    ("deco", "dataclass", None),
    ("hook", "def", None),
    ("deco", "def", "above"),
    ("deco", "def", "below"),
    ("hook", "def", "fn"),
]
HIST_COMBOS_EXTRA = [
    ("deco", "classmethod_inner", None),
    ("deco", "staticmethod_inner", None),
    ("deco", "property_inner", None),
    ("hook", "method", None),
    ("hook", "dataclass", None),
    ("deco", "lambda", None),
    ("deco", "inst", "cls"),
    ("deco", "inst_slots", None),
    ("deco", "boundmethod", "cls"),
    ("deco", "def", "late"),
]
LAZY_HIST_QUICK = [
    ("deco", "coro_def", None),
    ("deco", "gen_def", None),
    ("deco", "agen_def", None),
    ("deco", "coro_method", None),
    ("deco", "coro_classmethod_outer", None),
    ("deco", "gen_staticmethod_inner", None),
    ("deco", "coro_def", "above"),
    ("deco", "coro_def", "below"),
    ("hook", "gen_def", None),
]


def lazy_hist_combos(ctx):
    """-> [(combo, maxlen)]; both decoration-time switch states are run for each."""
    if ctx.quick:
        return [((d, k, t, n), 4) for d, k, n in LAZY_HIST_QUICK for t in TCS]
    # thorough: length <= 6 for the three flavours as plain functions, <= 5 for everything else
    out = [((d, k, t, n), 6 if (d == "deco" and k.endswith("_def") and n is None) else 5) for d, k, n in LAZY_HIST_QUICK for t in TCS]
    if ctx.thorough:
        seen = {c for c, _ in out}
        extra = [("deco", k, t, None) for k in LAZY_KINDS for t in TCS]
        extra += [("deco", k, "none", None) for k in ("coro_def", "gen_def", "agen_def")]
        extra += [("deco", k, t, n) for k in ("gen_def", "agen_def") for t in TCS for n in ("above", "below")]
        extra += [("hook", k, t, None) for k in HOOK_LAZY_KINDS for t in TCS]
        out += [(c, 5) for c in extra if c not in seen]
    return out



def build_jobs(ctx):
    maxlen = 4 if ctx.quick else 5
    nh = len(all_histories(maxlen))
    jobs = []
    for c in env_cases():
        jobs.append(dict(part="env", env=c))
    hist_combos = []
    for d, k, n in HIST_COMBOS_QUICK:
        for t in TCS:
            hist_combos.append(((d, k, t, n), False, maxlen))
    for t in TCS:  # the other switch set during the whole history
        hist_combos.append((("deco", "def", t, None), True, maxlen))
    if ctx.thorough:
        for d, k, n in HIST_COMBOS_EXTRA:
            for t in TCS:
                hist_combos.append(((d, k, t, n), False, 4))
    per = 3 if ctx.quick else 12
    for combo, stack, ml in hist_combos:
        n = len(all_histories(ml))
        for idx in common.shards(n, per, ctx.seed):
            jobs.append(dict(part="hist", combo=list(combo), stack=stack, maxlen=ml, idx=idx))
    mc = matrix_combos()
    for idx in common.shards(len(mc), 8, ctx.seed):
        jobs.append(dict(part="matrix", combos=[list(mc[i]) for i in idx]))
    lhc = lazy_hist_combos(ctx)
    for combo, ml in lhc:
        n = len(lazy_histories(ml))
        for initial in (False, True):
            for idx in common.shards(n, {4: 1, 5: 2, 6: 6}[ml], ctx.seed):
                jobs.append(dict(part="lazy-hist", combo=list(combo), initial=initial, maxlen=ml, idx=idx))
    lmc = lazy_matrix_combos()
    for idx in common.shards(len(lmc), 8, ctx.seed):
        jobs.append(dict(part="lazy-matrix", combos=[list(lmc[i]) for i in idx]))
    jobs.append(dict(part="dc"))
    # names part: the alphabet is read from the tree under test (plus the fixed list)
    alphabet, alpha_info = name_alphabet("decorator" if ctx.quick else "package")
    n_grouped, n_single = names_combos(alphabet, ctx.quick)
    for lst, k in ((n_grouped, 32 if ctx.quick else 64), (n_single, 16 if ctx.quick else 64)):
        for idx in common.shards(len(lst), k, ctx.seed):
            jobs.append(dict(part="names", combos=[list(lst[i]) for i in idx]))
    vfull = [enc_value(v) for v in values_full()]
    vcore = [enc_value(v) for v in VALUES_CORE]
    # item-name casings: every casing of the short name; bounded family of the long one
    d_all = name_casings(D_ITEM, full=True)
    d_near = name_casings(D_ITEM, full=False)
    s_near = name_casings(S_ITEM, full=False)
    beh = [D_ITEM, D_ITEM.upper(), "JaxTyping_Disable"]
    behs = [S_ITEM, S_ITEM.upper(), "Jaxtyping_Remove_Typechecker_Stack"]
    for idx in common.shards(len(d_all), 12, ctx.seed):
        jobs.append(dict(part="update", item=D_ITEM, names=[d_all[i] for i in idx], values=(vcore if ctx.quick else vfull)))
    jobs.append(dict(part="update", item=D_ITEM, names=d_near, values=vfull, behaviour=beh))
    for idx in common.shards(len(s_near), 2, ctx.seed):
        jobs.append(dict(part="update", item=S_ITEM, names=[s_near[i] for i in idx], values=vfull))
    jobs.append(dict(part="update", item=S_ITEM, names=[S_ITEM], values=vfull, behaviour=behs))
    info = dict(
        history_max_len=maxlen,
        histories_per_combo=nh,
        history_combos=[f"{combo_str(c)}:stack-{int(s)}:len<={ml}" for c, s, ml in hist_combos],
        matrix_combos=len(mc),
        lazy_history_max_len=max(m for _, m in lhc),
        lazy_histories_per_combo={ml: len(lazy_histories(ml)) for ml in sorted({m for _, m in lhc})},
        lazy_history_combos=[f"{combo_str(c)}:len<={ml}" for c, ml in lhc],
        lazy_matrix_combos=len(lmc),
        env_cases=len(env_cases()),
        item_casings={D_ITEM: len(d_all), S_ITEM: len(s_near)},
        switch_values=len(vfull),
        names=dict(
            alphabet=alpha_info,
            chunk_size=NAME_CHUNK,
            odd_kwargs_keys=list(ODD_KEYS),
            chunks=len(name_chunks(alphabet)),
            grouped_combos=len(n_grouped),
            single_name_combos=len(n_single),
            roles=dict(
                pk="every name of a chunk an optional positional-or-keyword parameter, passed by keyword (one at a time, all at once)",
                ko="... a keyword-only parameter",
                po="... a positional-only parameter whose name is ALSO passed as a key of **kwargs",
                vk="the names are keys of **kwargs of f(zq, **kw)",
                va="... of f(*a, **kw)",
                pk1="ONE name, the required first parameter, passed by keyword",
                ko1="ONE name, a required keyword-only parameter",
            ),
            holders_explicit=list(NAME_HOLDERS_DECO_QUICK if ctx.quick else NAME_HOLDERS_DECO),
            holders_hooked=list(NAME_HOLDERS_HOOK_QUICK if ctx.quick else NAME_HOLDERS_HOOK),
            single_name_holders=list(SINGLE_HOLDERS_QUICK if ctx.quick else SINGLE_HOLDERS_THOROUGH),
            environment_children=dict(holders=list(CHILD_NAME_HOLDERS), typecheckers=list(CHILD_NAME_TCS), combos_per_child=len(child_name_combos(name_alphabet("decorator")[0]))),
            names=alphabet,
        ),
    )
    return jobs, info


def _job_sort_key(job):
    # merge order must not depend on the seed (which only rotates shard order)
    p = job["part"]
    if p == "hist":
        return (p, json.dumps(job["combo"]), job["stack"], job["maxlen"], job["idx"][0])
    if p == "matrix":
        return (p, json.dumps(job["combos"][0]), False, 0, 0)
    if p == "lazy-hist":
        return (p, json.dumps(job["combo"]), job["initial"], job["maxlen"], min(job["idx"]))
    if p == "lazy-matrix":
        return (p, json.dumps(job["combos"][0]), False, 0, 0)
    if p == "dc":
        return (p, "", False, 0, 0)
    if p == "names":
        return (p, json.dumps(job["combos"][0]), False, 0, 0)
    if p == "update":
        return (p, job["item"] + ":" + job["names"][0], bool(job.get("behaviour")), 0, 0)
    return (p, json.dumps(job["env"], sort_keys=True), False, 0, 0)


def run(ctx):
    jobs, info = build_jobs(ctx)
    outs = common.pmap(_job, jobs)
    order = sorted(range(len(jobs)), key=lambda i: _job_sort_key(jobs[i]))
    stats = {}
    per_part, cpu_by_part = {}, {}
    viols, samples, states = [], [], set()
    for i in order:
        o, part = outs[i], jobs[i]["part"]
        stats = common.merge_counts([stats, o["stats"]])
        pp = per_part.setdefault(part, dict(evaluations=0, nontrivial=0, jobs=0))
        pp["evaluations"] += o["stats"]["evaluations"]
        pp["nontrivial"] += o["stats"]["nontrivial"]
        pp["jobs"] += 1
        cpu_by_part[part] = cpu_by_part.get(part, 0.0) + o.get("cpu_s", 0.0)
        viols += [Violation(**v) for v in o["viols"]]
        states.update(o.get("states", []))
        samples += o["samples"]
    by_part = {}
    for s in samples:
        by_part.setdefault(s["part"], []).append(s)
    n_tog, v_tog = toggle_part()
    viols += [Violation(**v) for v in v_tog]
    stats["evaluations"] += n_tog
    stats["nontrivial"] += n_tog
    per_part["toggle"] = dict(evaluations=n_tog, nontrivial=n_tog, jobs=1)
    n_none, v_none, s_none = none_part()
    viols += [Violation(**v) for v in v_none]
    stats["evaluations"] += n_none
    stats["nontrivial"] += n_none
    per_part["none"] = dict(evaluations=n_none, nontrivial=n_none, jobs=1)
    picked = [x for p in ("hist", "matrix", "names", "lazy-hist", "lazy-matrix", "update", "env") for x in by_part.get(p, [])[:2 if p in ("hist", "update") else 1]] + s_none
    if stats.get("stack_cause_inconsistent"):
        notes = [f"remove_typechecker_stack: {stats['stack_cause_inconsistent']} TypeCheckErrors whose __cause__ did not follow the switch (not part of the statement; not judged)"]
    else:
        notes = []
    cov = dict(
        evaluations=stats["evaluations"],
        distinct_nontrivial=stats["nontrivial"],
        rule="one evaluation = one judged observation: (a) a call made on the decorated callable AND on the same source without jaxtyped at one point of one "
        "operation history / matrix script / environment, compared by result identity, exception identity (type+message for interpreter-made ones), "
        "body log (run count, argument identities, context probe); (b) one config.update(item, value) from one prior state. All cases are distinct by "
        "construction (history x kind x typechecker x callable index x op index; script x step x call; name x prior x value; for lazy callables one evaluation = one MOMENT "
        "(the call, or one step of driving the returned coroutine / generator / async generator) of one object of one history). Non-trivial = the outcome "
        "would differ if the switch were ignored: a call made while checking is off (switch or no_type_check) whose arguments are ill-typed, "
        "non-binding, produce an ill-typed return or make the body raise; an ill-typed call made after checking was switched back on or on a callable "
        "decorated while off; an update that must flip the flag or must be rejected; names part: every call made while checking is off (the input class under test is the NAME of the keyword "
        "arguments; an ignored switch shows in the context probe of every body log)",
        exhaustive=True,
        samples=picked,
        per_part=per_part,
        histories_executed=stats.get("histories", 0),
        history_ops_executed=stats.get("ops", 0),
        decorations=stats.get("decorations", 0),
        abstract_states_reached=len(states),
        matrix_cases=stats.get("matrix_cases", 0),
        names=dict(
            info["names"],
            script_runs=stats.get("names_cases", 0),
            calls_made_while_checking_off=stats.get("names_calls_off", 0),
            keyword_arguments_passed_while_off=stats.get("names_keyword_names_off", 0),
        ),
        config_updates=stats.get("updates", 0),
        behavioural_probes=stats.get("behavioural_probes", 0),
        dontcare_updates=stats.get("dontcare_updates", 0),
        case_variant_item_names_rejected=stats.get("name_variant_rejected", 0),
        env_subprocesses=stats.get("env_subprocesses", 0),
        dontcare_ntc_on_descriptor_object=dict(
            cases=stats.get("dc_ntc_on_descriptor_object_cases", 0), checks_still_on=stats.get("dc_ntc_on_descriptor_object_checks_still_on", 0)
        ),
        stack_cause_checked=stats.get("stack_cause_checked", 0),
        lazy=dict(
            kinds=list(LAZY_KINDS),
            histories_executed=stats.get("lazy_histories", 0),
            objects_compared=stats.get("lazy_objects", 0),
            moments_compared=stats.get("lazy_events", 0),
            objects_whose_life_spans_a_switch_flip=stats.get("lazy_objects_switch_moved_during_life", 0),
            calls_where_plain_code_raises_at_call_time=stats.get("lazy_call_time_exceptions", 0),
            matrix_cases=stats.get("lazy_matrix_cases", 0),
            matrix_templates=[t[0] for t in LAZY_TEMPLATES],
            env_cases=stats.get("env_lazy_cases", 0),
            dontcare_enabled_illtyped_switch_moved_during_life=stats.get("lazy_enabled_illtyped_dontcare", 0),
            hooked_async_def_illtyped_calls=dict(observed=stats.get("lazy_hook_async_objects", 0), checked_by_the_hook=stats.get("lazy_hook_async_checked", 0)),
        ),
        bounds=f"histories: all sequences of length <= {info['history_max_len']} over {list(OPS)} ({info['histories_per_combo']} per combination; "
        f"thorough adds {2 * len(HIST_COMBOS_EXTRA)} further combinations at length <= 4), each started from one callable decorated while enabled; "
        f"lazy callables: all sequences of length <= {info['lazy_history_max_len']} over {list(LOPS)} ({info['lazy_histories_per_combo']} per combination by length bound; one C makes {len(LAZY_HIST_CALLS)} objects: calls {list(LAZY_HIST_CALLS)}; S drives every live object one step), "
        f"each from a callable decorated while enabled and while disabled, {len(info['lazy_history_combos'])} combinations; lazy matrix: {info['lazy_matrix_combos']} combinations "
        f"({len(LAZY_KINDS)} kinds x typeguard/beartype/typechecker=None x no_type_check placements, + hooked) x {len(LAZY_TEMPLATES)} switch-timing templates x {len(F1)} argument lists; "
        f"matrix: {info['matrix_combos']} combinations (13 kinds incl. callable instance / __slots__ instance / bound method x typeguard/beartype/typechecker=None x no_type_check placements incl. 'late' = marking the function "
        f"after it was wrapped and 'cls' = marking the class of a callable instance, + hooked) x 2 switch-timing scripts x the argument battery; "
        f"names: alphabet of {info['names']['alphabet']['total']} identifiers ({info['names']['alphabet']['fixed']} fixed + {info['names']['alphabet']['read_from_source']} parameter/local/closure names read from "
        f"{info['names']['alphabet']['source_files_read']} jaxtyping source file(s), scope {info['names']['alphabet']['scope']}) in chunks of {NAME_CHUNK}: {info['names']['grouped_combos']} grouped combinations "
        f"(holder x role pk/ko/po/vk/va x chunk x typechecker x no_type_check placement; explicit + hooked) + {info['names']['single_name_combos']} single-name combinations (roles pk1/ko1), "
        "each run through 2 switch-timing scripts; while checking is off EVERY name is passed by keyword (well-typed and ill-typed, one at a time and all at once), while on only the first name of a chunk; "
        f"item names: all {info['item_casings'][D_ITEM]} letter-casings of jaxtyping_disable, {info['item_casings'][S_ITEM]} casings of "
        "jaxtyping_remove_typechecker_stack (<= 2 letters flipped from all-lower / all-upper, alternating, title: 2^31 is out of reach); "
        f"{info['switch_values']} switch values incl. every casing of true/false; environment: {info['env_cases']} subprocesses",
        **{k: v for k, v in info.items() if k in ("history_combos", "matrix_combos", "lazy_history_combos", "lazy_matrix_combos")},
    )
    return Result(
        level="exploration",
        coverage=cov,
        violations=viols,
        assumptions=[
            "the undecorated reference is the same source text compiled without the jaxtyped line (and without no_type_check, which only sets an attribute)",
            "interpreter-made exceptions (non-binding calls) are compared by type and message, since identity cannot hold for objects made per call",
            "config.jaxtyping_disable / jaxtyping_remove_typechecker_stack attributes are read as the switch state for the mass of update cases; "
            "the attribute is validated against behaviour (ill-typed call raises or not) on every value x 3 name spellings x both priors",
        ],
        notes=notes
        + ["cpu seconds by part (this run, all workers): " + ", ".join(f"{k}={v:.0f}" for k, v in sorted(cpu_by_part.items()))]
        + [
            "don't-care: non-bool 0/1/1.0/0.0 as switch value (accepted-as-bool or ValueError both allowed); item names not in lower case may also be rejected with ValueError; "
            "non-binding calls while checking is ON; no_type_check applied to a classmethod/staticmethod/property OBJECT or to a dataclass (Python marks no function there); "
            "names part: while checking is ON a keyword whose name equals a positional-only parameter (role po: inspect.Signature.bind mishandles it, the known C07 finding) and ill-typed VALUES of **kwargs "
            "(not every typechecker looks at them) are not judged - while OFF both must equal plain code; with typechecker=None an ill-typed call while ON is not required to raise (nothing checks); "
            "decorating a callable instance whose class has no class-level annotations fails at decoration (typing.get_type_hints refuses it, switch on or off): outside the alphabet, the instance kinds carry one; "
            "old-style '@jaxtyped @typechecker' (the typechecker keeps checking by itself) is outside the alphabet; typechecker=None is covered by the small 'none' part "
            "and as a third 'typechecker' of the lazy kinds; lazy callables: an ill-typed call made while checking is ON is only required to raise TypeCheckError at SOME moment, and only "
            "if the switch stayed on for the object's whole life; ill-typed yielded / awaited results while ON are not judged; hooked `async def` while ON is not judged (the hook does not instrument it)",
        ],
    )



# --------------------------------------------------------------------------- typechecker=None


def none_part():
    """`jaxtyped(typechecker=None)` (only manual isinstance checks in the body) while checking
    is switched off must behave like the plain function too: in particular it must not open a
    binding context of its own.  Small complete product: switch mechanism x callable kind x
    call situation, differential against the undecorated function."""
    common.bind_repo()
    import typing
    import jaxtyping
    from jaxtyping import Float, config, jaxtyped
    from ..adapter import Duck, bindings_text

    Fn = Float[Duck, "n"]
    D3, D4 = Duck((3,)), Duck((4,))
    boom = ValueError("from the body")

    def make(kind, mech):
        def body(x=None, raise_=False):
            if raise_:
                raise boom
            return (isinstance(D3, Fn), isinstance(D4, Fn), bindings_text(), x)

        def f(x=None, raise_=False):
            return body(x, raise_)

        class K:
            def m(self, x=None, raise_=False):
                return body(x, raise_)

        plain = f if kind == "def" else K().m
        target = f if kind == "def" else K.m
        if mech == "ntc_below":
            target = typing.no_type_check(target)
        dec = jaxtyped(typechecker=None)(target)
        if mech == "ntc_above":
            dec = typing.no_type_check(dec)
        if kind == "method":
            class K2:
                pass

            K2.m = dec
            dec = K2().m
        return plain, dec

    def observe(fn, situation):
        def call():
            if situation == "nonbinding":
                return fn(1, 2, 3, 4)
            if situation == "raises":
                return fn(raise_=True)
            return fn(D3)

        try:
            if situation == "in_context":
                with jaxtyped("context"):
                    isinstance(D3, Fn)
                    r = call()
                    after = (isinstance(D4, Fn), bindings_text())
                return ("ok", r[:3], r[3] is D3, after)
            r = call()
            return ("ok", r[:3], r[3] is D3)
        except Exception as e:  # noqa: BLE001
            return ("raised", type(e).__name__, e is boom, None if e is boom else str(e).replace("K2.", "K.").replace("make.<locals>.", ""))

    viols, n = [], 0
    samples = []
    for mech in ("update_before_decoration", "update_after_decoration", "ntc_below", "ntc_above"):
        for kind in ("def", "method"):
            try:
                if mech == "update_before_decoration":
                    config.update("jaxtyping_disable", True)
                plain, dec = make(kind, mech)
                if mech == "update_after_decoration":
                    config.update("jaxtyping_disable", "TRUE")
                for situation in ("top_level", "in_context", "nonbinding", "raises"):
                    a, b = observe(plain, situation), observe(dec, situation)
                    n += 1
                    if a[:3] != b[:3] if a[0] == "raised" and situation == "nonbinding" else a != b:
                        viols.append(
                            Violation(
                                key=f"C19:typechecker-none:{mech}:{situation}",
                                what=f"jaxtyped(typechecker=None) {kind}, checking off via {mech}, {situation}: decorated {b} != undecorated {a}",
                                replay=dict(part="none", mech=mech, kind=kind, situation=situation),
                            ).to_json()
                        )
                    elif len(samples) < 1 and situation == "in_context":
                        samples.append(dict(part="none", mech=mech, kind=kind, situation=situation, observed=repr(b)))
            finally:
                config.update("jaxtyping_disable", False)
    return n, viols, samples



def toggle_part():
    """The switch flipped from ANOTHER thread, and the switch flipped WHILE a decorated call or a
    context block is on the stack.  Small complete product, differential against plain code."""
    common.bind_repo()
    import threading
    import typeguard
    import beartype
    import jaxtyping
    from jaxtyping import Float, config, jaxtyped
    from ..adapter import Duck, bindings_text

    Fn = Float[Duck, "n"]
    D3, D4 = Duck((3,)), Duck((4,))
    viols, n = [], 0

    def bad(key, what, rep):
        viols.append(Violation(key=key, what=what, replay=dict(part="toggle", **rep)).to_json())

    def in_thread(fn):
        box = []

        def run():
            try:
                box.append(("ok", fn()))
            except BaseException as e:  # noqa: BLE001
                box.append(("raised", type(e).__name__))

        t = threading.Thread(target=run)
        t.start()
        t.join()
        return box[0]

    def top_level_probe():
        return (isinstance(D3, Fn), isinstance(D4, Fn), bindings_text())

    for tcn, tc in (("typeguard", typeguard.typechecked), ("beartype", beartype.beartype)):
        def plain(x, y):
            return (isinstance(D3, Fn), isinstance(D4, Fn))

        def f(x, y):
            return (isinstance(D3, Fn), isinstance(D4, Fn))

        f.__annotations__ = {"x": Float[Duck, "a"], "y": Float[Duck, "a"]}
        dec = jaxtyped(typechecker=tc)(f)
        ill = (Duck((2,)), Duck((5,)))
        try:
            # --- threads
            for who in ("main-sets/worker-calls", "worker-sets/main-calls", "worker-sets/other-worker-calls"):
                rep = dict(case="thread", who=who, tc=tcn)
                n += 1
                config.update("jaxtyping_disable", False)
                setter = (lambda: config.update("jaxtyping_disable", True))
                if who.startswith("main-sets"):
                    setter()
                else:
                    in_thread(setter)
                want = ("ok", plain(*ill))
                got_main = in_thread(lambda: dec(*ill)) if "worker-calls" in who else _safe(lambda: dec(*ill))
                if got_main != want:
                    bad(f"C19:toggle:thread:{who}", f"{tcn}: checking switched off by config.update ({who}); an ill-typed call gave {got_main}, the plain function gives {want}", rep)
                # and back on, from the main thread: every thread checks again
                config.update("jaxtyping_disable", False)
                n += 1
                again = in_thread(lambda: dec(*ill))
                if again != ("raised", "TypeCheckError"):
                    bad(f"C19:toggle:thread:{who}:re-enable", f"{tcn}: after switching checking back on, an ill-typed call from a worker thread gave {again}", rep)
            # --- typing.no_type_check applied AFTER the function has already been called (the marker is
            # an attribute: it may be set, and removed again, at any time)
            import typing

            for target in ("wrapper", "function"):
                rep = dict(case="late-ntc", target=target, tc=tcn)
                n += 1

                def f2(x, y):
                    return (isinstance(D3, Fn), isinstance(D4, Fn))

                f2.__annotations__ = {"x": Float[Duck, "a"], "y": Float[Duck, "a"]}
                d2 = jaxtyped(typechecker=tc)(f2)
                first = _safe(lambda: d2(*ill))
                typing.no_type_check(d2 if target == "wrapper" else f2)
                marked = _safe(lambda: d2(*ill))
                obj = d2 if target == "wrapper" else f2
                try:
                    del obj.__no_type_check__
                except AttributeError:
                    obj.__no_type_check__ = False
                unmarked = _safe(lambda: d2(*ill))
                want = (("raised", "TypeCheckError"), ("ok", plain(*ill)), ("raised", "TypeCheckError"))
                if (first, marked, unmarked) != want:
                    bad(f"C19:toggle:late-no_type_check:{target}", f"{tcn}: ill-typed call before marking / after typing.no_type_check({target}) / after removing the marker gave {(first, marked, unmarked)}, expected {want}", rep)
            # --- switch flipped while a decorated call / a context block is on the stack
            for site in ("inside-decorated-call", "inside-context-block-off-to-on", "inside-context-block-on-to-off"):
                rep = dict(case="during", site=site, tc=tcn)
                n += 1
                config.update("jaxtyping_disable", False)
                err = None
                try:
                    if site == "inside-decorated-call":
                        def body(x, y):
                            config.update("jaxtyping_disable", True)
                            return 0

                        body.__annotations__ = {"x": Float[Duck, "n"], "y": Float[Duck, "n"]}
                        jaxtyped(typechecker=tc)(body)(D3, Duck((3,)))
                    elif site == "inside-context-block-off-to-on":
                        config.update("jaxtyping_disable", True)
                        with jaxtyped("context"):
                            config.update("jaxtyping_disable", False)
                            isinstance(D3, Fn)
                        config.update("jaxtyping_disable", True)
                    else:
                        with jaxtyped("context"):
                            isinstance(D3, Fn)
                            config.update("jaxtyping_disable", True)
                except BaseException as e:  # noqa: BLE001
                    err = f"{type(e).__name__}: {e}"
                # checking is off now: decorated code and top-level code must behave like plain code
                got = (err, top_level_probe(), in_thread(lambda: 0) and None, _safe(lambda: dec(*ill)))
                want = (None, (True, True, "\n"), None, ("ok", plain(*ill)))
                if got != want:
                    bad(f"C19:toggle:during:{site}", f"{tcn}: the switch was flipped {site}; afterwards (checking off) top-level checks / a decorated ill-typed call gave {got}, plain code gives {want}", rep)
                config.update("jaxtyping_disable", False)
                n += 1
                after_on = top_level_probe()
                if after_on != (True, True, "\n"):
                    bad(f"C19:toggle:during:{site}:after-re-enable", f"{tcn}: after re-enabling, top-level checks gave {after_on} (a context was left open)", rep)
        finally:
            config.update("jaxtyping_disable", False)
            try:
                from jaxtyping import _storage

                st_ = getattr(_storage._shape_storage, "memo_stack", None)
                if st_:
                    del st_[:]
            except Exception:  # noqa: BLE001
                pass
    return n, viols


def _safe(fn):
    try:
        return ("ok", fn())
    except BaseException as e:  # noqa: BLE001
        return ("raised", type(e).__name__)


# --------------------------------------------------------------------------- replay


def replay(rep):
    if rep.get("part") == "toggle":
        n, v = toggle_part()
        mine = [x for x in v if x["replay"] == rep]
        return dict(violations=[x["what"] for x in (mine or v)][:4], violates=bool(mine or v))
    if rep.get("part") == "none":
        n, v, _ = none_part()
        mine = [x for x in v if x["replay"] == rep]
        return dict(violations=[x["what"] for x in mine], violates=bool(mine))
    part = rep["part"]
    if part == "env":
        child = run_child(rep["env"])
        bad, _, _ = judge_child(rep["env"], child)
        if "lazy" in rep:
            hit = [b for b in bad if b[2].get("lazy") == rep["lazy"]]
        elif "combo" in rep:
            hit = [b for b in bad if b[2].get("combo") == rep["combo"] and b[2].get("step") == rep["step"] and b[2].get("call") == rep["call"]]
        else:
            hit = bad
        return dict(violates=bool(hit), import_outcome=child["import"], flags=child.get("flags"), findings=[b[1] for b in hit[:5]])
    fx = get_fx()
    try:
        if part == "restore":
            item = rep["item"]
            seen = []
            for prior in (True, "1", False):
                try:
                    fx.config.update(item, prior)
                    fx.config.update(item, False)
                    seen.append((repr(prior), repr(getattr(fx.config, item))))
                except Exception as e:  # noqa: BLE001
                    seen.append((repr(prior), type(e).__name__))
            return dict(violates=any(b != "False" for _, b in seen), flag_after_update_False=seen)
        if part == "hist":
            combo = tuple(rep["combo"])
            with World(fx, need_hook=(combo[0] == "hook")) as w:
                res = run_history(fx, w, combo, tuple(rep["ops"]), rep["stack"])
            hit = [(r, dis, reason) for r, dis, reason, _ in res if r["step"] == rep["step"] and r["subj"] == rep["subj"]]
            return dict(
                violates=any(reason for _, _, reason in hit),
                observations=[dict(call=r["call"], switch_on=dis, decorated=txt(r["d"]), undecorated=txt(r["p"]), reason=reason) for r, dis, reason in hit],
            )
        if part in ("lazy-hist", "lazy-matrix"):
            combo = tuple(rep["combo"])
            with World(fx, need_hook=(combo[0] == "hook")) as w:
                if part == "lazy-hist":
                    recs = [r for r in run_lazy(fx, w, combo, rep["initial"], lazy_ops(tuple(rep["ops"]))) if r["obj"] == rep["obj"] or r["group"] == "u"]
                else:
                    recs = [r for r in run_lazy_template(fx, w, combo, rep["template"])[2] if r["call"] == rep["call"] or r["group"] == "u"]
            verdicts = [(r, judge_lazy(r, combo[3], lazy_judges_enabled(combo))) for r in recs]
            return dict(
                violates=any(v for _, v in verdicts),
                observations=[
                    dict(call=r["call"], made_while_checking="off" if r["flag_at_create"] else "on", verdict=v, events=[(e["phase"], e["at"], "off" if e["flag"] else "on", e["d"], e["p"]) for e in r["events"]])
                    for r, v in verdicts
                ],
            )
        if part in ("matrix", "names"):
            combo = tuple(rep["combo"])
            with World(fx, need_hook=(combo[0] == "hook"), extra=[(combo[2], combo[1], combo[3])] if (combo[0] == "hook" and "~" in combo[1]) else ()) as w:
                res = run_matrix_case(fx, w, combo, rep["script"])
            hit = [(r, dis, reason) for r, dis, reason, _ in res if r["step"] == rep["step"] and r["call"] == rep["call"]]
            return dict(
                violates=any(reason for _, _, reason in hit),
                observations=[dict(call=r["call"], switch_on=dis, decorated=txt(r["d"]), undecorated=txt(r["p"]), reason=reason) for r, dis, reason in hit],
            )
        if part == "update":
            cfg = fx.config
            item, name, v, prior = rep["item"], rep["name"], dec_value(rep["value"]), rep["prior"]
            fx.restore()
            cfg.update(item, prior)
            before = read_flags(cfg)
            oc = do_update(cfg, name, v)
            after = read_flags(cfg)
            reason = judge_update(item, name, v, prior, oc, before, after)
            with World(fx, need_hook=False) as w:
                ns = w.decorate(("deco", "def", "typeguard", None))
                p = fx.observe(fx.thunk("def", fx.plain("def"), "I"), "x")
                d = fx.observe(fx.thunk("def", ns, "I"), "x")
            exp = expected_value(v)
            if item == D_ITEM:
                want = exp if (oc == "ok" and isinstance(exp, bool)) else (bool(v) if (oc == "ok" and exp == "DC") else prior)
            else:
                want = False
            beh_bad = ((d[:2] == p[:2]) != want) or ((d[0] == ("exc", "TypeCheckError")) == want)
            return dict(violates=bool(reason) or beh_bad, outcome=oc, flags_before=repr(before), flags_after=repr(after), expected=repr(exp), reason=reason, illtyped_call=repr(d[0]), undecorated=repr(p[0]))
    finally:
        fx.restore()
        fx.anomalies.clear()
    raise HarnessError(f"unknown replay part {part}")
