"""C03 — dtype categories accept exactly the documented dtypes, on every backend.

Engine E5: the space (dtype x carrier x category) is finite and is enumerated
completely on the real implementation.

  dtypes     every distinct value of np.sctypeDict, every ml_dtypes scalar type,
             four structured dtypes, jax.random.key for every registered impl,
             old-style PRNGKey, every tf.dtypes(.experimental).DType constant,
             plus a few strings that only a duck library could use
  carriers   np.ndarray (native and byte-swapped), jax.Array (eager; tracer under
             jax.eval_shape; thorough: tracer under jax.jit), tf.Tensor (from the
             DType constant and converted from every NumPy array), duck objects whose
             .dtype is a string / has a torch-style repr / has .as_numpy_dtype
  categories all exported AbstractDtype subclasses of jaxtyping (34) + generated user
             categories (1- and 2-subsets of 6 names, lone str / list / tuple / lone
             Pattern spellings, 3 regexes) + make_numpy_struct_dtype of each struct
  array type the carrier's own class, and typing.Any (must give the same verdict)

Oracle: vf/refs/dtypes.py (documented hierarchy over canonical identities obtained
by NumPy / JAX / TF introspection; three-valued).  Everything that is don't-care for
the value is still required to get the same verdict from every carrier of the
same canonical identity.

Two workers: 'main' (NumPy, JAX, ducks) and 'tf' (TensorFlow is imported once, only
there).  The parent only merges rows (in a fixed order) and applies the oracle.
"""
from __future__ import annotations

import itertools

from .. import common
from ..common import Result, Violation
from ..refs import dtypes as R

STRUCTS = [
    [["first", "u1"], ["second", "i1"]],
    [["second", "i1"], ["first", "u1"]],  # same fields, other order
    [["first", "u1"], ["second", "i2"]],  # same names, other field dtype
    [["x", "<f4"], ["y", "<f4", [2]]],
]
NAMES6 = ["uint8", "int64", "float32", "bfloat16", "complex64", "my_dtype"]
# r"int": match accepts int8 but not uint8 (search would), and accepts int8 although
# fullmatch would not -> separates Pattern.match from both neighbours.
REGEXES = [r"int", r"float(16|32)$", r"u?int(8|16)$"]
# strings no library defines: the statement is silent on built-ins (don't-care, but the
# same verdict from every duck spelling); user categories go by name
STRESS = ["", "float", "int", "uint", "complex", "float320", "xint8", "int8x", "bfloat", "float8", "FLOAT16", "Float32", "INT8", "BF16", "ULONG"]
CUSTOM = ["my_dtype"]  # the documentation's own example of a custom dtype: in no built-in category but Shaped
KEY_IMPLS_FALLBACK = ["threefry2x32", "rbg", "unsafe_rbg"]


# ------------------------------------------------------------------- duck carriers


class DuckStr:
    """.dtype is a plain string (the documented duck-array protocol)."""

    def __init__(self, dtype):
        self.shape = (1,)
        self.dtype = dtype


class _ReprDtype:
    __slots__ = ("_r",)

    def __init__(self, r):
        self._r = r

    def __repr__(self):
        return self._r


class DuckTorch:
    """.dtype is an object with no .type / .as_numpy_dtype whose repr is 'torch.<name>'."""

    def __init__(self, r):
        self.shape = (1,)
        self.dtype = _ReprDtype(r)


class _AsNumpyDtype:
    __slots__ = ("as_numpy_dtype",)

    def __init__(self, t):
        self.as_numpy_dtype = t

    def __repr__(self):
        return "<dtype: %r>" % getattr(self.as_numpy_dtype, "__name__", "?")


class DuckAsNumpy:
    """.dtype has .as_numpy_dtype (a NumPy scalar type) and no .type: TensorFlow's protocol."""

    def __init__(self, t):
        self.shape = (1,)
        self.dtype = _AsNumpyDtype(t)


class DuckHolder:
    """Holds a real tf.dtypes.DType as .dtype (used only where TensorFlow cannot
    materialise a tensor of that dtype)."""

    def __init__(self, d):
        self.shape = (1,)
        self.dtype = d


# ------------------------------------------------------------------- enumerations


def np_types():
    """[(label, scalar type)]: distinct values of np.sctypeDict (which includes the
    ml_dtypes registrations once ml_dtypes is imported) + every ml_dtypes scalar type."""
    import ml_dtypes
    import numpy as np

    seen, out = set(), []
    cands = list(np.sctypeDict.values())
    cands += [getattr(ml_dtypes, n) for n in sorted(dir(ml_dtypes))]
    for t in cands:
        if isinstance(t, type) and issubclass(t, np.generic) and t not in seen:
            seen.add(t)
            out.append((t.__name__, t))
    labels = [l for l, _ in out]
    if len(set(labels)) != len(labels):
        raise common.HarnessError(f"scalar type names are not unique: {sorted(labels)}")
    return sorted(out, key=lambda x: x[0])


def struct_dtype(i):
    import numpy as np

    return np.dtype([tuple(tuple(x) if isinstance(x, list) else x for x in f) for f in STRUCTS[i]])


def key_impls():
    try:
        from jax._src import prng

        impls = sorted(prng.prngs)
    except Exception:
        impls = list(KEY_IMPLS_FALLBACK)
    return impls


def tf_dtypes(tf):
    """{name: DType} for every DType constant of tf, tf.dtypes, tf.dtypes.experimental."""
    out = {}
    mods = [tf, tf.dtypes] + ([tf.dtypes.experimental] if hasattr(tf.dtypes, "experimental") else [])
    for m in mods:
        for n in sorted(dir(m)):
            try:
                o = getattr(m, n)
            except Exception:
                continue
            if isinstance(o, tf.dtypes.DType):
                out.setdefault(o.name, o)
    return dict(sorted(out.items()))


def category_specs(exported):
    specs = [dict(t="builtin", name=n) for n in exported]
    for n in NAMES6:
        specs.append(dict(t="user", form="str", strs=[n], res=[]))
        specs.append(dict(t="user", form="list", strs=[n], res=[]))
    for i, (a, b) in enumerate(itertools.combinations(NAMES6, 2)):
        specs.append(dict(t="user", form="list" if i % 2 == 0 else "tuple", strs=[a, b], res=[]))
    specs.append(dict(t="user", form="pattern", strs=[], res=[REGEXES[0]]))
    specs.append(dict(t="user", form="list", strs=[], res=[REGEXES[1]]))
    specs.append(dict(t="user", form="list", strs=[], res=[REGEXES[2]]))
    specs.append(dict(t="user", form="list", strs=["uint8"], res=[REGEXES[1]]))
    # two user categories with THE SAME class name and different dtypes (subscripted with the same
    # array type and shape string, one after the other)
    specs.append(dict(t="user", form="list", strs=["int16", "float16"], res=[], clsname="Namesake"))
    specs.append(dict(t="user", form="list", strs=["int8"], res=[], clsname="Namesake"))
    specs.append(dict(t="user", form="list", strs=["float32"], res=[], clsname="Float"))  # namesake of a built-in
    # a plain string next to a pattern that carries a flag of its own
    specs.append(dict(t="user", form="list", strs=["float16"], res=["(?i)bf(loat)?16$"]))
    specs.append(dict(t="user", form="list", strs=[], res=["int(8|16)$", "(?i)u?long(long)?$"]))
    # user categories that derive from an existing category instead of AbstractDtype directly
    # (specs come AFTER the built-ins, so the base category has always been used first)
    for base, strs in (("Float", ["float32", "float64"]), ("Integer", ["int8", "uint8"]), ("Shaped", ["bool"]), ("Int", ["float16"])):
        specs.append(dict(t="user", form="list", strs=strs, res=[], base=base))
    for i in range(len(STRUCTS)):
        specs.append(dict(t="struct", i=i))
    return specs


def cat_name(s):
    if s["t"] == "builtin":
        return s["name"]
    if s["t"] == "struct":
        return f"Struct[S{s['i']}]"
    body = "|".join([f"re:{r}" for r in s["res"]] + list(s["strs"]))
    return f"User[{s['form']}:{body}]" + (f"({s['base']})" if s.get("base") else "") + (f"<named {s['clsname']}>" if s.get("clsname") else "")


def exported_categories():
    import jaxtyping

    names = []
    for n in sorted(dir(jaxtyping)):
        if n.startswith("_"):
            continue
        try:
            o = getattr(jaxtyping, n)
        except Exception:
            continue
        if isinstance(o, type) and issubclass(o, jaxtyping.AbstractDtype) and o is not jaxtyping.AbstractDtype:
            names.append(n)
    return names


# ------------------------------------------------------------------- building things

_CLS_CACHE: dict = {}


def category_class(spec):
    import re

    import jaxtyping

    k = common.sha(spec)
    if k in _CLS_CACHE:
        return _CLS_CACHE[k]
    if spec["t"] == "builtin":
        c = getattr(jaxtyping, spec["name"])
    elif spec["t"] == "struct":
        c = jaxtyping.make_numpy_struct_dtype(struct_dtype(spec["i"]), f"S{spec['i']}")
    else:
        items = [re.compile(r) for r in spec["res"]] + list(spec["strs"])
        if spec["form"] in ("str", "pattern"):
            (val,) = items
        elif spec["form"] == "tuple":
            val = tuple(items)
        else:
            val = list(items)
        c = type(spec.get("clsname") or ("U" + k), (getattr(jaxtyping, spec["base"]) if spec.get("base") else jaxtyping.AbstractDtype,), {"dtypes": val})
    _CLS_CACHE[k] = c
    return c


def verdict(obj, ann):
    try:
        return "T" if isinstance(obj, ann) else "F"
    except Exception as e:  # noqa: BLE001
        return "E:" + type(e).__name__


def evaluate(obj, array_type, specs):
    """All categories against one carried array, with the carrier's class and with Any."""
    import typing

    v1, v2 = [], []
    for s in specs:
        try:
            c = category_class(s)
            a1, a2 = c[array_type, "..."], c[typing.Any, "..."]
        except Exception as e:  # noqa: BLE001  (a documented category that cannot even be built accepts nothing)
            v1.append("E:build:" + type(e).__name__)
            v2.append("E:build:" + type(e).__name__)
            continue
        v1.append(verdict(obj, a1))
        v2.append(verdict(obj, a2))
    return v1, v2


_KEEPALIVE: list = []


def _lookup_np(label):
    for l, t in np_types():
        if l == label:
            return t
    raise common.HarnessError(f"no NumPy scalar type called {label!r} on this platform")


def with_carrier(recipe, fn, tf=None):
    """Materialise the carrier described by `recipe` and return
    fn(obj, array_type, canon, np_dtype_or_None); raises Unproducible when the
    library refuses to produce such an array."""
    import numpy as np

    lib = recipe["lib"]
    if lib == "numpy":
        if "struct" in recipe:
            dt = struct_dtype(recipe["struct"])
        else:
            dt = np.dtype(_lookup_np(recipe["t"]))
            if recipe.get("bo", "=") != "=":
                dt = dt.newbyteorder(recipe["bo"])
        try:
            a = np.zeros((1,), dt)
        except Exception as e:  # noqa: BLE001
            raise Unproducible(repr(e))
        return fn(a, np.ndarray, R.canon_numpy(a.dtype), a.dtype)
    if lib == "jax":
        import jax
        import jax.numpy as jnp

        jax.config.update("jax_enable_x64", True)
        try:
            if "key" in recipe:
                a = jax.random.key(0, impl=recipe["key"])
            elif recipe.get("oldkey"):
                a = jax.random.PRNGKey(0)
            else:
                a = jnp.zeros((1,), _lookup_np(recipe["t"]))
        except Exception as e:  # noqa: BLE001
            raise Unproducible(repr(e)[:160])
        mode = recipe.get("mode", "eager")

        def call(x):
            npdt = x.dtype if isinstance(x.dtype, np.dtype) else None
            return fn(x, jax.Array, R.canon_jax(x.dtype), npdt)

        if mode == "eager":
            return call(a)
        box = []

        def traced(x):
            if not isinstance(x, jax.core.Tracer):
                raise common.HarnessError(f"expected a tracer under {mode}, got {type(x)}")
            if x.dtype != a.dtype:
                raise common.HarnessError(f"tracer dtype {x.dtype} != eager dtype {a.dtype}")
            box.append(call(x))
            return 0

        try:
            if mode == "eval_shape":
                jax.eval_shape(traced, a)
            elif mode == "jit":
                jax.jit(traced)(a)
            else:
                raise common.HarnessError(f"unknown mode {mode}")
        except common.HarnessError:
            raise
        except Exception as e:  # noqa: BLE001
            if not box:
                raise Unproducible(repr(e)[:160])
        if len(box) != 1:
            raise common.HarnessError(f"traced function ran {len(box)} times")
        return box[0]
    if lib == "tf":
        if tf is None:
            import tensorflow as tf  # noqa: PLW0642
        if "d" in recipe:
            d = tf_dtypes(tf)[recipe["d"]]
            t = _tf_tensor(tf, d)
            if t is None:
                raise Unproducible(f"no tensor of {d!r}")
        else:
            try:
                t = tf.convert_to_tensor(np.zeros((1,), _lookup_np(recipe["from_np"])))
            except Exception as e:  # noqa: BLE001
                raise Unproducible(repr(e)[:160])
        if not isinstance(t, tf.Tensor):
            raise common.HarnessError(f"not a tf.Tensor: {type(t)}")
        return fn(t, tf.Tensor, R.canon_tf(t.dtype), None)
    if lib == "duck":
        st = recipe["style"]
        if st == "tfholder":
            if tf is None:
                import tensorflow as tf  # noqa: PLW0642
            d = tf_dtypes(tf)[recipe["d"]]
            return fn(DuckHolder(d), DuckHolder, R.canon_tf(d), None)
        name = recipe["name"]
        if recipe.get("of") is not None:
            c = R.canon_numpy(np.dtype(_lookup_np(recipe["of"])))
            if c["name"] != name and st != "asnumpy":
                raise common.HarnessError(f"duck name {name!r} is not the canonical name of {recipe['of']}")
        else:
            c = R.unknown_name(name, must_reject=name in CUSTOM)
        if st == "asnumpy":
            t = _lookup_np(recipe["of"])
            try:
                t = np.dtype(np.dtype(t).name).type  # what a TF-like library reports: the canonical scalar type
            except TypeError:
                pass
            c = R.canon_numpy(np.dtype(t))
            return fn(DuckAsNumpy(t), DuckAsNumpy, c, None)
        c = dict(c, names=[name])
        if st == "str":
            return fn(DuckStr(name), DuckStr, c, None)
        if st == "torch":
            return fn(DuckTorch("torch." + name), DuckTorch, c, None)
        if st == "dotted":
            return fn(DuckTorch("some.lib.dtypes." + name), DuckTorch, c, None)
    raise common.HarnessError(f"bad recipe {recipe}")


class Unproducible(Exception):
    pass


def _tf_tensor(tf, d):
    if d == tf.resource:
        v = tf.Variable(0.0)
        _KEEPALIVE.append(v)
        return v.handle
    if d == tf.variant:
        try:
            return tf.raw_ops.EmptyTensorList(element_shape=tf.constant([], tf.int32), max_num_elements=1, element_dtype=tf.float32)
        except Exception:  # noqa: BLE001
            return None
    import numpy as np

    for mk in (
        lambda: tf.zeros((1,), d),
        lambda: tf.constant([0], dtype=d),
        lambda: tf.constant([b""], dtype=d),
        lambda: tf.convert_to_tensor(np.zeros((1,), d.as_numpy_dtype)),
    ):
        try:
            t = mk()
        except Exception:  # noqa: BLE001
            continue
        if t.dtype == d:
            return t
    return None


def backend_of(recipe):
    lib = recipe["lib"]
    if lib == "jax":
        return "jax" if recipe.get("mode", "eager") == "eager" else "jax-tracer"
    if lib == "duck":
        return "duck-" + {"dotted": "torch", "tfholder": "tf"}.get(recipe["style"], recipe["style"])
    return lib


def label_of(recipe):
    for k in ("t", "d", "from_np", "name"):
        if k in recipe:
            return recipe[k]
    if "struct" in recipe:
        return f"S{recipe['struct']}"
    if "key" in recipe:
        return f"key<{recipe['key']}>"
    if recipe.get("oldkey"):
        return "PRNGKey"
    return "?"


def recipes_main(tier):
    import numpy as np

    types = np_types()
    out = []
    for l, t in types:
        out.append(dict(lib="numpy", t=l))
        dt = np.dtype(t)
        if dt.itemsize > 1 and dt.kind in "iufc" and dt.isnative:
            out.append(dict(lib="numpy", t=l, bo=">"))
    for i in range(len(STRUCTS)):
        out.append(dict(lib="numpy", struct=i))
    modes = ["eager", "eval_shape"] + (["jit"] if tier == "thorough" else [])
    for m in modes:
        for l, t in types:
            out.append(dict(lib="jax", t=l, mode=m))
        for impl in key_impls():
            out.append(dict(lib="jax", key=impl, mode=m))
        out.append(dict(lib="jax", oldkey=1, mode=m))
    # ducks: one per canonical NumPy name (first scalar type, in label order, that has it)
    byname = {}
    for l, t in types:
        byname.setdefault(np.dtype(t).name, l)
    for st in ("str", "torch", "dotted"):
        for name, l in sorted(byname.items()):
            out.append(dict(lib="duck", style=st, name=name, of=l))
        for name in CUSTOM + STRESS:
            out.append(dict(lib="duck", style=st, name=name, of=None))
    for name, l in sorted(byname.items()):
        out.append(dict(lib="duck", style="asnumpy", name=name, of=l))
    return out


def recipes_tf(tf):
    out = []
    for name in tf_dtypes(tf):
        out.append(dict(lib="tf", d=name))
    for l, t in np_types():
        out.append(dict(lib="tf", from_np=l))
    return out


# ------------------------------------------------------------------- workers


def _worker(job):
    common.bind_repo()
    import warnings

    warnings.simplefilter("ignore")
    tf = None
    if job["part"] == "tf":
        import os

        os.environ.setdefault("TF_CPP_MIN_LOG_LEVEL", "3")
        try:
            import tensorflow as tf  # the one and only TensorFlow import of the run
        except Exception as e:  # noqa: BLE001
            raise common.HarnessError(f"TensorFlow is required for C03: {e!r}")
        recipes = recipes_tf(tf)
    else:
        recipes = recipes_main(job["tier"])
    import numpy as np

    exported = exported_categories()
    specs = category_specs(exported)
    structs = [struct_dtype(i) for i in range(len(STRUCTS))]
    rows, unprod = [], []

    def make_row(recipe):
        def fn(obj, array_type, canon, npdt):
            v1, v2 = evaluate(obj, array_type, specs)
            eq = None if npdt is None else [bool(npdt == s) for s in structs]
            return dict(recipe=recipe, canon=canon, struct_eq=eq, v=v1, v_any=v2, tname=type(obj).__name__, dtype_repr=repr(obj.dtype)[:60])

        return with_carrier(recipe, fn, tf=tf)

    for rec in recipes:
        try:
            rows.append(make_row(rec))
        except Unproducible as e:
            if rec["lib"] == "tf" and "d" in rec:
                # no tensor of this DType: still enumerate the DType itself on a holder
                rec2 = dict(lib="duck", style="tfholder", d=rec["d"])
                rows.append(make_row(rec2))
                unprod.append([rec, str(e)[:120], "holder"])
            else:
                unprod.append([rec, str(e)[:120], "skipped"])
    meta = dict(exported=exported, n_np_types=len(np_types()), np_version=np.__version__)
    if tf is not None:
        meta["tf_version"] = tf.__version__
        meta["tf_dtypes"] = list(tf_dtypes(tf))
    else:
        import jax

        meta["jax_version"] = jax.__version__
        meta["key_impls"] = key_impls()
        meta["sctypeDict_distinct"] = len({t for t in np.sctypeDict.values()})
    seq = sequence_part(exported) if tf is None else ([], 0)
    return dict(part=job["part"], rows=rows, unproducible=unprod, meta=meta, seq_viols=seq[0], seq_n=seq[1])


SEQ_DTYPES = ["bool_", "int8", "uint8", "int32", "int64", "longlong", "float16", "float32", "float64", "complex64", "bfloat16"]


def sequence_part(exported):
    """The verdict for a dtype must not depend on what was checked before in the same context:
    inside one jaxtyped context / one decorated call, every ordered pair of TEMPORARY arrays
    (dtype d1, then dtype d2 - the second one may live at the address the first one had) is checked
    against one shared annotation object per category, NumPy and duck carriers; every verdict is
    compared with the verdict of the same dtype checked on its own outside any context (which the
    main product compares with the documented hierarchy)."""
    import ml_dtypes
    import numpy as np

    import jaxtyping
    from jaxtyping import jaxtyped
    from ..adapter import Duck

    def npd(n):
        return getattr(np, n) if hasattr(np, n) else getattr(ml_dtypes, n)

    def dname(n):
        return np.dtype(npd(n)).type.__name__

    viols, n = [], 0
    for cname in exported:
        cat = getattr(jaxtyping, cname)
        ann_np, ann_duck = cat[np.ndarray, "..."], cat[Duck, "..."]
        alone = {d: (isinstance(np.zeros(2, npd(d)), cat[np.ndarray, "..."]), isinstance(Duck((2,), dname(d)), cat[Duck, "..."])) for d in SEQ_DTYPES}
        for d1, d2 in itertools.permutations(SEQ_DTYPES, 2):
            for where in ("context", "call"):

                def body():
                    return (
                        isinstance(np.zeros(2, npd(d1)), ann_np),
                        isinstance(np.zeros(2, npd(d2)), ann_np),
                        isinstance(Duck((2,), dname(d1)), ann_duck),
                        isinstance(Duck((2,), dname(d2)), ann_duck),
                    )

                if where == "context":
                    with jaxtyped("context"):
                        got = body()
                else:
                    got = jaxtyped(body, typechecker=None)()
                n += 4
                want = (alone[d1][0], alone[d2][0], alone[d1][1], alone[d2][1])
                if got != want:
                    i = next(i for i in range(4) if got[i] != want[i])
                    viols.append(
                        dict(
                            key=f"C03:sequence:{cname}:{d1}-then-{d2}",
                            what=f"inside one jaxtyped {where}, {cname}[{'np.ndarray' if i < 2 else 'Duck'}, '...'] checked on a temporary {d1} array and then on a temporary {d2} array answers {got[i]!r} for the {'first' if i % 2 == 0 else 'second'}; the same check on its own answers {want[i]!r}",
                            replay=dict(kind="sequence", cat=cname, d1=d1, d2=d2),
                        )
                    )
                    break
    return viols, n


# ------------------------------------------------------------------- judging


def expectation(canon, spec, struct_eq):
    if spec["t"] == "builtin":
        if spec["name"] not in R.BUILTIN:
            return R.DC  # an exported class the documentation table does not know: consistency only
        return R.expect_builtin(canon, spec["name"])
    if spec["t"] == "user":
        return R.expect_user(canon, spec["strs"], spec["res"])
    s = str(struct_dtype(spec["i"]))
    return R.expect_struct(canon, s, None if struct_eq is None else struct_eq[spec["i"]])


def judge(exp, got):
    """-> None if allowed, else a short reason."""
    if exp == R.ACCEPT and got != "T":
        return "must accept"
    if exp == R.REJECT and got == "T":
        return "must reject"
    return None


def run(ctx):
    status, detail = R.check_against_docs(common.REPO)
    if status == "stale":
        raise common.HarnessError(f"vf/refs/dtypes.py no longer transcribes docs/api/array.md: {detail}")
    jobs = [dict(part="main", tier=ctx.tier), dict(part="tf", tier=ctx.tier)]
    r = ctx.seed % 2
    outs = common.pmap(_worker, jobs[r:] + jobs[:r])
    outs.sort(key=lambda o: o["part"])
    exported = outs[0]["meta"]["exported"]
    for o in outs:
        if o["meta"]["exported"] != exported:
            raise common.HarnessError("workers disagree on the exported categories")
    missing = [n for n in R.BUILTIN if n not in exported]
    if missing:
        raise common.HarnessError(f"documented categories not exported by jaxtyping: {missing}")
    specs = category_specs(exported)
    names = [cat_name(s) for s in specs]
    viols = []
    stats = dict(evaluations=0, must_accept=0, must_reject=0, dontcare=0, raised_where_reject_allowed=0, any_vs_class_compared=0)
    nontrivial = set()
    per_backend: dict = {}
    groups: dict = {}
    raised = set()
    samples = []
    want_samples = {("numpy", "longlong", "Int"), ("jax", "key<threefry2x32>", "Key"), ("tf", "bfloat16", "Float"), ("duck-torch", "float32", "Float32"), ("jax-tracer", "int4", "Int4"), ("numpy", "longdouble", "Float")}
    for o in outs:
        for row in o["rows"]:
            rec, canon = row["recipe"], row["canon"]
            be, lab = backend_of(rec), label_of(rec)
            per_backend[be] = per_backend.get(be, 0) + 1
            for i, spec in enumerate(specs):
                got, got_any = row["v"][i], row["v_any"][i]
                stats["evaluations"] += 2
                exp = expectation(canon, spec, row["struct_eq"])
                stats[{R.ACCEPT: "must_accept", R.REJECT: "must_reject", R.DC: "dontcare"}[exp]] += 1
                if names[i] != "Shaped":
                    nontrivial.add((be, common.sha(rec), names[i]))
                if got.startswith("E:") and exp != R.ACCEPT:
                    stats["raised_where_reject_allowed"] += 1
                    raised.add(f"{be}:{lab}:{got[2:]}")
                why = judge(exp, got)
                if why:
                    viols.append(
                        Violation(
                            key=f"C03:{be}:{lab}:{names[i]}",
                            what=f"{be} carrier {row['tname']} dtype {row['dtype_repr']} (identity {R.ident_of(canon)}) vs {names[i]}: got {got}, {why}",
                            replay=dict(kind="cell", recipe=rec, cat=spec, any=False, got=got, expected=exp),
                        )
                    )
                stats["any_vs_class_compared"] += 1
                if (got_any == "T") != (got == "T"):
                    viols.append(
                        Violation(
                            key=f"C03:{be}:{lab}:{names[i]}:Any",
                            what=f"{be} {lab} vs {names[i]}: verdict {got} with the carrier's class but {got_any} with typing.Any (expected {exp})",
                            replay=dict(kind="cell", recipe=rec, cat=spec, any=True, got=got_any, expected=exp, got_class=got),
                        )
                    )
                if exp == R.DC and spec["t"] == "builtin":
                    groups.setdefault((R.ident_of(canon), i), []).append((be, lab, rec, got))
                if (be, lab, names[i]) in want_samples:
                    want_samples.discard((be, lab, names[i]))
                    samples.append(dict(backend=be, dtype=lab, carrier=row["tname"], dtype_repr=row["dtype_repr"], identity=list(R.ident_of(canon)), category=names[i], expected=exp, got=got))
    # cross-backend consistency on everything whose value is don't-care
    n_groups = n_multi = 0
    for (ident, i), members in sorted(groups.items(), key=lambda kv: (repr(kv[0][0]), kv[0][1])):
        n_groups += 1
        if len({m[0] for m in members}) > 1:
            n_multi += 1
        acc = [m for m in members if m[3] == "T"]
        rej = [m for m in members if m[3] != "T"]
        if acc and rej:
            a, b = acc[0], rej[0]
            viols.append(
                Violation(
                    key=f"C03:cross:{ident[2]}:{names[i]}",
                    what=f"identity {ident} vs {names[i]} (value is don't-care) but backends disagree: {a[0]}:{a[1]} -> {a[3]}, {b[0]}:{b[1]} -> {b[3]}",
                    replay=dict(kind="consistency", recipes=[a[2], b[2]], cat=specs[i]),
                )
            )
    seq_n = 0
    for o in outs:
        seq_n += o.get("seq_n", 0)
        viols += [Violation(**v) for v in o.get("seq_viols", [])]
    stats["evaluations"] += seq_n
    unprod = [u for o in outs for u in o["unproducible"]]
    meta = {k: v for o in outs for k, v in o["meta"].items() if k != "exported"}
    cov = dict(
        evaluations=stats["evaluations"],
        distinct_nontrivial=len(nontrivial),
        rule="case = (carrier recipe, category) evaluated by one real isinstance with the carrier's class (and once more with typing.Any); "
        "non-trivial = the category is not Shaped, i.e. the verdict depends on the dtype",
        samples=samples,
        exhaustive=True,
        carriers=sum(per_backend.values()),
        sequence_checks_of_temporaries_in_one_context=seq_n,
        carriers_per_backend=dict(sorted(per_backend.items())),
        categories=len(specs),
        categories_builtin=len(exported),
        categories_user=sum(1 for s in specs if s["t"] == "user"),
        categories_struct=len(STRUCTS),
        cells_must_accept=stats["must_accept"],
        cells_must_reject=stats["must_reject"],
        cells_dontcare=stats["dontcare"],
        dontcare_identity_groups=n_groups,
        dontcare_groups_with_2plus_backends=n_multi,
        raised_where_reject_allowed=stats["raised_where_reject_allowed"],
        raised_where_reject_allowed_by=sorted(raised),
        unproducible=[f"{backend_of(u[0])}:{label_of(u[0])}:{u[2]}" for u in unprod],
        docs_table_check=status,
        exported_not_in_table=[n for n in exported if n not in R.BUILTIN],
        bounds="every distinct np.sctypeDict value + every ml_dtypes scalar type + 4 structured dtypes + jax.random.key per registered impl + PRNGKey + every tf DType constant; "
        + ("tracers: eval_shape and jit" if ctx.thorough else "tracers: eval_shape"),
        **meta,
    )
    notes = []
    if raised:
        notes.append(
            "isinstance RAISED instead of answering for some carriers where the reference expects a rejection (or does not care); "
            "the statement only speaks of accepting, so this is not counted as a violation (see raised_where_reject_allowed_by)"
        )
    return Result(
        level="exploration",
        coverage=cov,
        violations=viols,
        assumptions=[
            "canonical dtype identity = (kind by np/jnp.issubdtype, bits by itemsize / ml_dtypes.finfo|iinfo, np.dtype(x).name); trusted: NumPy/JAX/ml_dtypes/TF introspection",
            "vf/refs/dtypes.py transcribes the '## Dtype' list of docs/api/array.md (checked against the file at start-up); the five exported Float8* classes count as documented precisions",
            "'matches one of its patterns' is read as Pattern.match",
            "duck carriers model third-party libraries that call dtypes by their canonical NumPy name",
        ],
        notes=notes,
    )


# ------------------------------------------------------------------- replay


def replay(rep):
    common.bind_repo()
    import typing

    def one(recipe, spec, use_any):
        def fn(obj, array_type, canon, npdt):
            eq = None if npdt is None else [bool(npdt == struct_dtype(i)) for i in range(len(STRUCTS))]
            try:
                ann = category_class(spec)[typing.Any if use_any else array_type, "..."]
            except Exception as e:  # noqa: BLE001
                return "E:build:" + type(e).__name__, canon, eq, repr(obj.dtype)[:60]
            return verdict(obj, ann), canon, eq, repr(obj.dtype)[:60]

        return with_carrier(recipe, fn)

    if rep["kind"] == "sequence":
        v, n = sequence_part([rep["cat"]])
        mine = [x for x in v if x["replay"]["d1"] == rep["d1"] and x["replay"]["d2"] == rep["d2"]]
        return dict(violations=[x["what"] for x in mine], violates=bool(mine))
    if rep["kind"] == "consistency":
        res = [one(r, rep["cat"], False) for r in rep["recipes"]]
        got = [x[0] for x in res]
        return dict(verdicts=got, identities=[list(R.ident_of(x[1])) for x in res], violates=len({g == "T" for g in got}) > 1)
    got, canon, eq, drepr = one(rep["recipe"], rep["cat"], rep.get("any", False))
    exp = expectation(canon, rep["cat"], eq)
    out = dict(got=got, expected=exp, identity=list(R.ident_of(canon)), dtype=drepr, category=cat_name(rep["cat"]))
    bad = judge(exp, got) is not None
    if rep.get("any"):
        got_cls = one(rep["recipe"], rep["cat"], False)[0]
        out["got_with_class"] = got_cls
        bad = bad or (got_cls == "T") != (got == "T")
    out["violates"] = bool(bad)
    return out
