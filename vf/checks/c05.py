"""C05 — bindings live exactly as long as one jaxtyped call or context block.

Engine E4 (program enumeration).  Every program of the grammar

    P(d) ::= pre  COMPOUND(body = P(d-1) | atom | empty)  post
    COMPOUND ::= CALL(kind, exit) | CTX(exit)

is executed against the real API (the bodies of the real decorated callables call
back into the interpreter, so every push and pop is the real one) and against a
stack-of-dicts reference interpreter; after EVERY statement print_bindings() is
parsed and must equal the reference's top frame, and the real context-stack depth must
equal the reference depth; at the end the stack must be empty and both transient flags
clear.
"""

import dataclasses
import itertools
import warnings

from .. import common
from ..common import Result, Violation

KINDS = ["new_tg", "new_bt", "old_tg", "none", "new_unann", "dataclass", "method", "classmethod", "gen", "coro", "recurse"]
EXITS = ["return", "raise_exc", "raise_base", "raise_kbd", "raise_sysexit", "raise_genexit", "bad_args", "bad_return", "nonbinding"]
CTX_EXITS = ["return", "raise_exc", "raise_base", "raise_genexit"]
# (the last entry is a pair: a check that fails in a typechecked callee frame (a=3 there), i.e. a
# rollback, followed by a fresh binding - both before the nested compound)
PRE = [None, ["check", "a", 2], ["check", "b", 2], [["check", "a", 2], ["check", "b", 1]]]
POST = [None, ["check", "a", 2], ["sym"]]
ATOMS = [None, ["check", "a", 1], ["check", "a", 2], ["sym"]]

QUICK_KINDS = ["new_tg", "new_bt", "old_tg", "none", "new_unann", "dataclass", "gen", "coro", "recurse"]
QUICK_EXITS = ["return", "raise_exc", "raise_base", "bad_args", "bad_return", "nonbinding"]


def compounds(tier):
    ks = KINDS if tier == "thorough" else QUICK_KINDS
    es = EXITS if tier == "thorough" else QUICK_EXITS
    out = []
    for k in ks:
        for e in es:
            if not applicable(k, e):
                continue
            out.append(["call", k, e])
    for e in CTX_EXITS if tier == "thorough" else CTX_EXITS[:3]:
        out.append(["ctx", e])
    return out


def applicable(kind, ex):
    if kind in ("gen", "coro") and ex in ("bad_return",):
        return False
    if kind == "dataclass" and ex == "bad_return":
        return False
    if kind in ("none", "new_unann") and ex in ("bad_args", "bad_return"):
        return True  # nothing is annotated / checked, the body runs
    return True


def programs(tier, depth, outer=None):
    """Yield programs (lists of statements) of nesting depth <= depth; `outer` restricts the
    outermost compound to the given indices (used for sharding)."""
    comp = compounds(tier)

    def bodies(d):
        for a in ATOMS:
            yield [a] if a is not None else []
        if d > 0:
            for p in P(d):
                yield p

    def P(d):
        for ci, c in enumerate(comp):
            if d == depth and outer is not None and ci not in outer:
                continue
            for body in bodies(d - 1):
                for pre in (PRE if tier == "thorough" else [PRE[0], PRE[1], PRE[3]]):
                    for post in POST:
                        prog = []
                        if pre is not None and pre and isinstance(pre[0], list):
                            prog.extend(pre)
                        elif pre is not None:
                            prog.append(pre)
                        prog.append(c + [body])
                        if post is not None:
                            prog.append(post)
                        yield prog

    yield from P(depth)


# ------------------------------------------------------------------ reference interpreter


class RefInterp:
    """Stack of frames; frame = dict(single={}, has_n=bool)."""

    def __init__(self):
        self.stack = []
        self.log = []

    def top(self):
        return self.stack[-1] if self.stack else None

    def obs(self):
        t = self.top()
        self.log.append(("obs", dict(t["single"]) if t else {}, len(self.stack)))

    def check(self, name, size):
        t = self.top()
        if t is None:
            return True
        if name in t["single"]:
            return t["single"][name] == size
        t["single"][name] = size
        return True

    def run_block(self, block):
        for st in block:
            self.run_stmt(st)

    def run_stmt(self, st):
        k = st[0]
        if k == "check":
            self.log.append(("check", self.check(st[1], st[2])))
        elif k == "sym":
            t = self.top()
            self.log.append(("sym", True if (t and t["has_n"]) else "AnnotationError"))
        elif k == "ctx":
            _, ex, body = st
            self.stack.append(dict(single={}, has_n=False))
            self.obs()
            outcome = self.body_and_exit(body, ex)
            self.stack.pop()
            self.log.append(("ctx", outcome))
        elif k == "call":
            _, kind, ex, body = st
            self.log.append(("call",) + self.call(kind, ex, body))
        self.obs()

    def body_and_exit(self, body, ex):
        self.log.append(("body",))
        self.run_block(body)
        return {"return": "returned", "bad_return": "returned", "bad_args": "returned", "raise_exc": "VerifFault", "raise_base": "VerifBaseFault", "raise_kbd": "KeyboardInterrupt", "raise_sysexit": "SystemExit", "raise_genexit": "GeneratorExit"}[ex]

    def call(self, kind, ex, body, level=0):
        checked = kind not in ("none", "new_unann")
        if ex == "nonbinding":
            return ("TypeError", False)
        if kind in ("gen", "coro"):
            # the call itself: push, (param check), create generator/coroutine, pop
            if ex == "bad_args":
                return ("typecheck-error", False)
            # body runs at iteration, in the CONSUMER's context
            outcome = self.body_and_exit(body, ex)
            return (outcome, True)
        frame = dict(single={}, has_n=True)
        self.stack.append(frame)
        try:
            if checked:
                if ex == "bad_args":
                    return ("typecheck-error", False)
                frame["single"]["a"] = 3
            if kind == "recurse" and level == 0:
                self.obs()
                self.log.append(("body",))
                inner = self.call(kind, ex, body, level=1)
                self.log.append(("inner",) + inner)
                self.obs()
                if inner[0] != "returned":
                    return (inner[0], True)
                return ("returned", True)
            self.obs()
            outcome = self.body_and_exit(body, ex)
            if outcome == "returned" and ex == "bad_return" and checked:
                return ("typecheck-error", True)
            return (outcome, True)
        finally:
            self.stack.pop()


# ------------------------------------------------------------------ real interpreter


class RealInterp:
    def __init__(self, env):
        self.env = env
        self.log = []
        self.pending = []

    def obs(self):
        from .. import adapter

        txt = adapter.bindings_text()
        try:
            axes, structs = adapter.parse_bindings(txt)
        except ValueError:
            axes = {"<unparseable>": txt}
        self.log.append(("obs", axes, adapter.stack_depth()))

    def run_block(self, block):
        for st in block:
            self.run_stmt(st)

    def run_stmt(self, st):
        from .. import adapter
        from ..adapter import Duck

        env = self.env
        k = st[0]
        if k == "check":
            self.log.append(("check", adapter.check(Duck((st[2],)), env["F"](st[1]))))
        elif k == "sym":
            self.log.append(("sym", adapter.check(Duck((8,)), env["F"]("{n}+1"))))
        elif k == "ctx":
            _, ex, body = st
            outcome = "returned"
            try:
                with env["jaxtyped"]("context"):
                    self.obs()
                    self.body_and_exit(body, ex)
            except BaseException as e:  # noqa: BLE001
                outcome = type(e).__name__
            self.log.append(("ctx", outcome))
        elif k == "call":
            _, kind, ex, body = st
            self.log.append(("call",) + self.call(kind, ex, body))
        self.obs()

    def body_and_exit(self, body, ex):
        from .. import specs

        self.log.append(("body",))
        self.run_block(body)
        if ex == "raise_exc":
            raise specs.VerifFault("exit")
        if ex == "raise_base":
            raise specs.VerifBaseFault("exit")
        if ex == "raise_kbd":
            raise KeyboardInterrupt()
        if ex == "raise_sysexit":
            raise SystemExit(3)
        if ex == "raise_genexit":
            raise GeneratorExit()

    def call(self, kind, ex, body):
        """-> (outcome, body_ran)"""
        import jaxtyping
        from ..adapter import Duck

        env = self.env
        x = Duck((3,), "int32" if ex == "bad_args" else "float32")
        desc = dict(body=body, ex=ex, ran=False, kind=kind, level=0)
        self.pending.append(desc)
        fn = env["callables"][kind]
        try:
            if ex == "nonbinding":
                r = fn(x, 7, 8, 9)
            else:
                r = fn(x)
            if kind == "gen":
                r = list(r)
            elif kind == "coro":
                try:
                    r.send(None)
                except StopIteration:
                    pass
            outcome = "returned"
        except jaxtyping.TypeCheckError:
            outcome = "typecheck-error"
        except BaseException as e:  # noqa: BLE001
            n = type(e).__name__
            if isinstance(e, TypeError) and ex != "nonbinding" or "Beartype" in n:
                outcome = "typecheck-error"  # the typechecker's own error (old style)
            else:
                outcome = n
        if self.pending and self.pending[-1] is desc:
            self.pending.pop()
        return (outcome, desc["ran"])

    # called from inside the real decorated callables
    def enter_body(self, x):
        from ..adapter import Duck

        desc = self.pending[-1]
        if desc["kind"] == "recurse" and desc["level"] == 0:
            desc["level"] = 1
            desc["ran"] = True
            self.obs()
            self.log.append(("body",))
            inner = dict(body=desc["body"], ex=desc["ex"], ran=False, kind="recurse", level=1, inner=True)
            self.pending.append(inner)
            fn = self.env["callables"]["recurse"]
            import jaxtyping

            try:
                fn(x)
                out = "returned"
            except jaxtyping.TypeCheckError:
                out = "typecheck-error"
            except BaseException as e:  # noqa: BLE001
                out = type(e).__name__
                self.log.append(("inner", out, inner["ran"]))
                self.obs()
                raise
            finally:
                if self.pending and self.pending[-1] is inner:
                    self.pending.pop()
            self.log.append(("inner", out, inner["ran"]))
            self.obs()
            if out != "returned":
                raise jaxtyping.TypeCheckError("inner")
            return x
        self.pending.pop()
        desc["ran"] = True
        if desc["kind"] not in ("gen", "coro"):
            self.obs()
        self.body_and_exit(desc["body"], desc["ex"])
        if desc["ex"] == "bad_return":
            return Duck((9,))
        return x


def make_env():
    import beartype
    import typeguard
    from jaxtyping import Float, jaxtyped
    from ..adapter import Duck

    env = {"jaxtyped": jaxtyped, "F": lambda d: Float[Duck, d], "interp": None}
    A = Float[Duck, "a"]

    def body(x):
        return env["interp"].enter_body(x)

    def mk(name="f"):
        def f(x: A, n: int = 7) -> A:
            return body(x)

        f.__name__ = f.__qualname__ = name
        return f

    c = {}
    c["new_tg"] = jaxtyped(typechecker=typeguard.typechecked)(mk())
    c["new_bt"] = jaxtyped(typechecker=beartype.beartype)(mk())
    with warnings.catch_warnings():
        warnings.simplefilter("ignore")
        c["old_tg"] = jaxtyped(typeguard.typechecked(mk()))
    c["none"] = jaxtyped(typechecker=None)(mk())

    def unann(x, n=7):
        return body(x)

    c["new_unann"] = jaxtyped(typechecker=beartype.beartype)(unann)
    c["recurse"] = jaxtyped(typechecker=typeguard.typechecked)(mk("r"))

    @jaxtyped(typechecker=typeguard.typechecked)
    @dataclasses.dataclass
    class DC:
        x: A
        n: int = 7

        def __post_init__(self):
            body(self.x)

    c["dataclass"] = DC

    class K:
        @jaxtyped(typechecker=beartype.beartype)
        def m(self, x: A, n: int = 7) -> A:
            return body(x)

        @jaxtyped(typechecker=typeguard.typechecked)
        @classmethod
        def cm(cls, x: A, n: int = 7) -> A:
            return body(x)

    c["method"] = K().m
    c["classmethod"] = K.cm

    @jaxtyped(typechecker=typeguard.typechecked)
    def g(x: A, n: int = 7):
        body(x)
        yield 1

    c["gen"] = g

    @jaxtyped(typechecker=beartype.beartype)
    async def co(x: A, n: int = 7):
        body(x)

    c["coro"] = co
    env["callables"] = c
    return env


def normalise(log, ignore_depth=False):
    out = []
    for e in log:
        if e[0] == "obs":
            out.append(("obs", tuple(sorted(e[1].items())), None if ignore_depth else e[2]))
        else:
            out.append(tuple(e))
    return out


def run_program(env, prog):
    """-> (real_log, ref_log, final_depth, flags)"""
    from .. import adapter

    real = RealInterp(env)
    env["interp"] = real
    real.obs()
    real.run_block(prog)
    ref = RefInterp()
    ref.obs()
    ref.run_block(prog)
    blind = adapter.stack_depth() == -1  # internals not readable: compare the public observations only
    return normalise(real.log, blind), normalise(ref.log, blind), adapter.stack_depth(), adapter.flags()


def _reset_stack():
    try:
        from jaxtyping import _storage

        st = getattr(_storage._shape_storage, "memo_stack", None)
        if st:
            del st[:]
    except Exception:
        pass


def _shard(job):
    common.bind_repo()
    warnings.simplefilter("ignore")
    env = make_env()
    stats = dict(programs=0, statements=0, observations=0, calls=0)
    viols, samples = [], []
    outcomes = set()
    tier, depth = job["tier"], job["depth"]
    for i, prog in enumerate(programs(tier, depth, outer=job["outer"])):
        if i % job["nsplit"] != job["split"]:
            continue
        stats["programs"] += 1
        try:
            real, ref, depth_end, fl = run_program(env, prog)
        except BaseException as e:  # noqa: BLE001
            _reset_stack()
            viols.append(Violation(key=f"C05:interpreter-escape:{type(e).__name__}", what=f"program {prog}: exception escaped the interpreter: {type(e).__name__}: {e}"[:400], replay=dict(prog=prog)).to_json())
            continue
        stats["statements"] += len(real)
        stats["observations"] += sum(1 for e in real if e[0] == "obs")
        stats["calls"] += sum(1 for e in real if e[0] in ("call", "ctx"))
        outcomes.update(e[1] for e in real if e[0] in ("call", "ctx"))
        bad = None
        if real != ref:
            j = next((k for k, (a, b) in enumerate(zip(real, ref)) if a != b), min(len(real), len(ref)))
            ra = real[j] if j < len(real) else None
            rb = ref[j] if j < len(ref) else None
            kind = (ra[0] if ra else rb[0])
            bad = (f"diverge:{kind}", f"step {j}: implementation {ra}, reference {rb}")
        elif depth_end not in (0, -1):
            bad = ("stack-not-empty", f"context stack depth {depth_end} after the program")
        elif fl != (None, False):
            bad = ("flags", f"transient flags {fl} after the program")
        if bad:
            comp = [s for s in prog if s and s[0] in ("call", "ctx")][0]
            viols.append(Violation(key=f"C05:{comp[0]}:{comp[1]}:{comp[2] if comp[0] == 'call' else ''}:{bad[0]}", what=f"program {prog}: {bad[1]}", replay=dict(prog=prog)).to_json())
            _reset_stack()
        elif len(samples) < 2 and len(real) > 12:
            samples.append(dict(program=prog, transcript=[list(map(str, e)) for e in real[:14]]))
        if len(viols) > 200:
            break
    return stats, viols, samples, sorted(map(str, outcomes))


def run(ctx):
    depth = 2
    ncomp = len(compounds(ctx.tier))
    n = None
    nsplit = 3
    jobs = [dict(tier=ctx.tier, depth=depth, outer=[ci], nsplit=nsplit, split=sp) for ci in range(ncomp) for sp in range(nsplit)]
    r = ctx.seed % max(1, len(jobs))
    jobs = jobs[r:] + jobs[:r]
    outs = common.pmap(_shard, jobs)
    stats = common.merge_counts(o[0] for o in outs)
    viols = [Violation(**v) for o in outs for v in o[1]]
    samples = [s for o in outs for s in o[2]][:3]
    outcomes = sorted(set(x for o in outs for x in o[3]))
    from . import c05_unwind

    un, uv, ucov = c05_unwind.run_part(ctx)
    viols += uv
    stats["programs"] += un
    cov = dict(
        unusual_endings=ucov,
        states=stats["observations"],
        transitions=stats["statements"],
        traces_validated_against_impl=stats["programs"],
        samples=samples,
        programs=stats["programs"],
        compounds=len(compounds(ctx.tier)),
        calls_and_blocks=stats["calls"],
        distinct_outcomes=outcomes,
        exhaustive=True,
        bounds=f"unusual endings (vf/checks/c05_unwind.py): 4 constructs x 3 enclosing situations x (7 hostile exception kinds + RecursionError from {ucov['recursion_start_offsets']} stack offsets x pre/post/mixed order); nesting depth 2; pre in {len(PRE)} / post in {len(POST)} statements; innermost body in {len(ATOMS)} atoms; kinds x exits = {len(compounds(ctx.tier))} compounds ({ctx.tier})",
    )
    return Result(level="model_checking", coverage=cov, violations=viols, assumptions=["reference: stack-of-dicts interpreter (RefInterp in this file)", "generator / coroutine bodies are driven immediately after the call, in the caller's context"])


def replay(rep):
    if rep.get("kind") == "unwind":
        from . import c05_unwind

        return c05_unwind.replay_one(rep)
    common.bind_repo()
    warnings.simplefilter("ignore")
    env = make_env()
    real, ref, depth_end, fl = run_program(env, rep["prog"])
    _reset_stack()
    return dict(real=[list(map(str, e)) for e in real], reference=[list(map(str, e)) for e in ref], depth_end=depth_end, flags=str(fl), violates=real != ref or depth_end not in (0, -1) or fl != (None, False))
