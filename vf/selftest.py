"""setup_cmd: nothing to build (pure Python); verify the toolchain and the binding
of `import jaxtyping` to /repo's working tree, and that MANIFEST.json parses."""
import json, os, sys
from . import common

def main():
    common.bind_repo()
    import jaxtyping, numpy, jax, typeguard, beartype  # noqa
    man = json.load(open(os.path.join(common.VERIF_DIR, "MANIFEST.json")))
    assert man["version"] == 1
    print("selftest ok: jaxtyping from", os.path.dirname(jaxtyping.__file__), "checks:", len(man["checks"]))

if __name__ == "__main__":
    main()
