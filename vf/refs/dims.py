"""Reference reading of the dim-string grammar of docs/api/array.md.

Written from the documentation, not from `_make_array_cached`:

  spec   := token (whitespace token)*           (leading/trailing whitespace ignored)
  token  := '...'  |  modifier* base
  modifier := '#' | '*' | '_' | '?' | ident '='     (any order, each at most once)
  base   := '' | identifier | integer | symbolic-expression (no spaces)

Axis kinds (abstract syntax used by refs/shapes.py):
  ('anon',)                      one axis, never checked          `_`, `_name`
  ('fixed', n, bc)               one axis of size n (or 1 if bc)
  ('named', name, bc, tp)        one axis bound to a name; tp = '?'-axis
  ('sym', expr, bc)              one axis whose size is the value of expr
  ('anonvar',)                   zero or more axes, never checked  `...`, `*_`, `*_name`
  ('var', name, bc, tp)          zero or more axes bound to *name

`parse` returns ('ok', axes) | ('error', reason) | ('dontcare', reason) where
'dontcare' marks forms on which the documentation is silent.
"""
from __future__ import annotations

import re

_IDENT = re.compile(r"^[^\W\d]\w*$", re.UNICODE)
_INT = re.compile(r"^[+-]?\d+$")
MODS = "#*_?"


class Illegal(Exception):
    pass


class DontCare(Exception):
    pass


def parse_token(tok: str):
    if "," in tok and "(" not in tok:
        raise Illegal("comma-separated axes")
    if "..." in tok:
        if tok != "...":
            raise Illegal("'...' takes no modifiers / must stand alone")
        return ("anonvar",)
    mods = set()
    rest = tok
    seen_doc = 0
    dc = None
    if tok.count("=") >= 2:
        dc = "more than one '=' (docs silent)"
    while rest:
        c = rest[0]
        if c in MODS:
            if c in mods:
                raise Illegal(f"repeated modifier {c}")
            mods.add(c)
            rest = rest[1:]
        elif rest.count("=") == 1:
            # `name=` documentation prefix: ignored.
            doc, rest = rest.split("=")
            seen_doc += 1
            if not doc.isidentifier() or seen_doc > 1:
                dc = "documentation prefix that is not a single identifier (docs silent)"
        else:
            break
    if tok.endswith("#"):
        raise Illegal("trailing '#'")
    if dc is not None:
        raise DontCare(dc)
    bc, var, anon, tp = "#" in mods, "*" in mods, "_" in mods, "?" in mods
    if rest == "":
        if not anon:
            raise DontCare("empty base without '_' (docs silent)")
        if bc:
            raise Illegal("anonymous axis cannot be broadcastable")
        if tp:
            raise DontCare("'?_' (docs silent)")
        return ("anonvar",) if var else ("anon",)
    if rest.isidentifier():
        if anon:
            if bc:
                raise Illegal("anonymous axis cannot be broadcastable")
            if tp:
                raise DontCare("'?_name' (docs silent)")
            return ("anonvar",) if var else ("anon",)
        return ("var", rest, bc, tp) if var else ("named", rest, bc, tp)
    try:
        n = int(rest)
    except ValueError:
        n = None
    if n is not None:
        if var or anon or tp:
            raise Illegal("modifier cannot apply to a fixed axis")
        return ("fixed", n, bc)
    if var or anon or tp:
        raise Illegal("modifier cannot apply to a symbolic axis")
    return ("sym", rest, bc)


def parse(spec):
    """Return ('ok', tuple_of_axes) | ('error', why) | ('dontcare', why)."""
    if not isinstance(spec, str):
        return ("error", "non-string specification")
    axes = []
    dontcare = None
    nvar = 0
    for tok in spec.split():
        try:
            ax = parse_token(tok)
        except Illegal as e:
            return ("error", str(e))
        except DontCare as e:
            dontcare = str(e)
            continue
        if ax[0] in ("anonvar", "var"):
            nvar += 1
        axes.append(ax)
    if dontcare is not None:
        return ("dontcare", dontcare)
    if nvar > 1:
        return ("error", "two multi-axis specifiers")
    return ("ok", tuple(axes))


def is_multi(ax) -> bool:
    return ax[0] in ("anonvar", "var")
