"""Reference table for C03: the documented dtype hierarchy of docs/api/array.md
over *canonical dtype identities*.

Nothing in here reads jaxtyping's own string tables.  A concrete dtype is
canonicalised with NumPy / JAX / ml_dtypes introspection only:

    kind   np/jnp.issubdtype against the abstract NumPy scalar hierarchy
           (the hierarchy the documentation and the source comment refer to)
    bits   np.dtype(x).itemsize * 8 for NumPy-native types,
           ml_dtypes.finfo / iinfo (.bits) for the sub-byte / low-precision types
    name   np.dtype(x).name   (longlong -> 'int64', intc -> 'int32',
           longdouble -> 'float128' on x86-64 Linux, bfloat16 -> 'bfloat16')

identity = (kind, bits, name).

Three-valued expectation (ACCEPT / REJECT / DC):

* `Shaped`              ACCEPT everything ("Any dtype at all").
* precision class P     ACCEPT iff identity == P's identity, else REJECT
                        ("accepts exactly its one dtype").
* kind category C       REJECT when the dtype's kind is not one of the kinds C is
                        documented to contain;  ACCEPT when it is and the identity
                        has a precision class (or is bool / a PRNG key, which are
                        leaves of the documented tree themselves);  DC when the kind
                        fits but the documentation names no class of that precision
                        (longdouble, clongdouble, float8_e3m4, float4/6, timedelta64
                        -- which NumPy files under signedinteger -- ...): there only
                        the *same verdict on every backend* is required.
* user category         by dtype *name*; where NumPy itself offers two names for the
                        dtype (np.dtype(x).name vs the scalar type's __name__, e.g.
                        'int64' / 'longlong', 'bool' / 'bool_', 'float128' /
                        'longdouble') both readings are allowed.
"""
from __future__ import annotations

import os
import re

ACCEPT, REJECT, DC = "accept", "reject", "dc"

# --- the documented tree, transcribed from docs/api/array.md "## Dtype" -------------
# (category -> kinds it is documented to contain)
CATEGORY_KINDS = {
    "Shaped": None,  # any dtype at all
    "Bool": ("bool",),
    "Key": ("key",),
    "Num": ("int", "uint", "float", "complex"),  # "Any integer, unsigned integer, floating, or complex"
    "Inexact": ("float", "complex"),  # "Any floating or complex"
    "Float": ("float",),  # "Any floating point"
    "Complex": ("complex",),  # "Any complex"
    "Integer": ("int", "uint"),  # "Any integer or unsigned intger"
    "UInt": ("uint",),  # "Any unsigned integer"
    "Int": ("int",),  # "Any signed integer"
    "Real": ("float", "int", "uint"),  # "Any floating, integer, or unsigned integer"
}

# "Of particular precision": class -> identity (kind, bits, name)
PRECISION_DOCS = {
    "BFloat16": ("float", 16, "bfloat16"),
    "Float16": ("float", 16, "float16"),
    "Float32": ("float", 32, "float32"),
    "Float64": ("float", 64, "float64"),
    "Complex64": ("complex", 64, "complex64"),
    "Complex128": ("complex", 128, "complex128"),
    "UInt2": ("uint", 2, "uint2"),
    "UInt4": ("uint", 4, "uint4"),
    "UInt8": ("uint", 8, "uint8"),
    "UInt16": ("uint", 16, "uint16"),
    "UInt32": ("uint", 32, "uint32"),
    "UInt64": ("uint", 64, "uint64"),
    "Int2": ("int", 2, "int2"),
    "Int4": ("int", 4, "int4"),
    "Int8": ("int", 8, "int8"),
    "Int16": ("int", 16, "int16"),
    "Int32": ("int", 32, "int32"),
    "Int64": ("int", 64, "int64"),
}
# Precision-specific classes that are part of the public API (jaxtyping/__init__.py,
# `X as X` re-exports) but are not listed in array.md.  Their names are their
# documentation: "each precision-specific class accepts exactly its one dtype".
PRECISION_EXPORT_ONLY = {
    "Float8e4m3b11fnuz": ("float", 8, "float8_e4m3b11fnuz"),
    "Float8e4m3fn": ("float", 8, "float8_e4m3fn"),
    "Float8e4m3fnuz": ("float", 8, "float8_e4m3fnuz"),
    "Float8e5m2": ("float", 8, "float8_e5m2"),
    "Float8e5m2fnuz": ("float", 8, "float8_e5m2fnuz"),
}
PRECISION = {**PRECISION_DOCS, **PRECISION_EXPORT_ONLY}
_DOCUMENTED_IDENTS = set(PRECISION.values())
BUILTIN = tuple(CATEGORY_KINDS) + tuple(PRECISION)  # 11 + 23 = 34


def check_against_docs(repo: str):
    """Compare the transcription above with the bullet list under '## Dtype' in
    <repo>/docs/api/array.md.  -> (status, detail); status in ok / missing / stale."""
    p = os.path.join(repo, "docs", "api", "array.md")
    if not os.path.exists(p):
        return "missing", p
    with open(p) as f:
        text = f.read()
    m = re.search(r"^## Dtype\n(.*?)^Unless you really want", text, re.S | re.M)
    if not m:
        return "stale", "no '## Dtype' section"
    in_docs = set(re.findall(r"`([A-Z][A-Za-z0-9]*)`", "\n".join(l for l in m.group(1).splitlines() if l.lstrip().startswith("-"))))
    mine = set(CATEGORY_KINDS) | set(PRECISION_DOCS)
    if in_docs != mine:
        return "stale", f"docs-only={sorted(in_docs - mine)} table-only={sorted(mine - in_docs)}"
    # the indentation of the list is the hierarchy: every class nested under C must
    # have a kind contained in C's kinds
    stack, bad = [], []
    for line in m.group(1).splitlines():
        if not line.lstrip().startswith("-"):
            continue
        depth = (len(line) - len(line.lstrip())) // 4
        names = re.findall(r"`([A-Z][A-Za-z0-9]*)`", line)
        if "Of particular precision" in line:
            parent = stack[depth - 1] if depth - 1 < len(stack) else None
            for n in names:
                if parent is None or PRECISION_DOCS[n][0] not in (CATEGORY_KINDS[parent] or ()):
                    bad.append((n, parent))
            continue
        if len(names) != 1:
            return "stale", f"unparsed line {line!r}"
        cat = names[0]
        del stack[depth:]
        for anc in stack:
            ak, ck = CATEGORY_KINDS[anc], CATEGORY_KINDS[cat]
            if ak is not None and not set(ck) <= set(ak):
                bad.append((cat, anc))
        stack.append(cat)
    if bad:
        return "stale", f"nesting disagrees with table: {bad}"
    return "ok", p


# --- canonicalisation ---------------------------------------------------------------

_NATIVE = {"b": "bool", "i": "int", "u": "uint", "f": "float", "c": "complex"}


def canon_numpy(dt) -> dict:
    """dt: np.dtype (NumPy-native, ml_dtypes extension, or structured)."""
    import ml_dtypes
    import numpy as np
    import jax.numpy as jnp

    dt = np.dtype(dt)
    tname = dt.type.__name__
    if dt.names is not None:
        return dict(kind="struct", bits=dt.itemsize * 8, name=str(dt), names=sorted({str(dt), dt.name, tname}))
    if dt.type.__module__.split(".")[0] == "ml_dtypes":
        # extension scalar types: ml_dtypes' own finfo / iinfo decide (JAX does not
        # know all of them, e.g. the float6 types); cross-checked with jnp.issubdtype
        # whenever JAX places the type in its lattice at all.
        try:
            info = ml_dtypes.iinfo(dt)
            kind = "int" if int(info.min) < 0 else "uint"
        except Exception:  # noqa: BLE001
            info = ml_dtypes.finfo(dt)
            kind = "float"
        jk = [k for k, a in (("uint", np.unsignedinteger), ("int", np.signedinteger), ("float", np.floating)) if jnp.issubdtype(dt, a)]
        if jk and jk != [kind]:
            raise ValueError(f"ml_dtypes says {kind}, jnp.issubdtype says {jk} for {dt!r}")
        return dict(kind=kind, bits=int(info.bits), name=dt.name, names=sorted({dt.name, tname}))
    if jnp.issubdtype(dt, np.bool_):
        kind = "bool"
    elif jnp.issubdtype(dt, np.unsignedinteger):
        kind = "uint"
    elif jnp.issubdtype(dt, np.signedinteger):
        kind = "int"  # NB: includes timedelta64 (NumPy's hierarchy) -> undocumented precision -> DC
    elif jnp.issubdtype(dt, np.floating):
        kind = "float"
    elif jnp.issubdtype(dt, np.complexfloating):
        kind = "complex"
    else:
        kind = "other"
    if dt.kind in _NATIVE and _NATIVE[dt.kind] != kind:
        raise ValueError(f"NumPy kind {dt.kind!r} and issubdtype disagree for {dt!r}")
    return dict(kind=kind, bits=dt.itemsize * 8, name=dt.name, names=sorted({dt.name, tname}))


def canon_jax(dtype) -> dict:
    """dtype of a jax.Array: np.dtype or an extended (PRNG key) dtype."""
    import jax
    import numpy as np

    if jax.dtypes.issubdtype(dtype, jax.dtypes.prng_key):
        names = {str(dtype), getattr(dtype, "name", str(dtype)), "prng_key"}
        return dict(kind="key", bits=None, name=str(dtype), names=sorted(names))
    return canon_numpy(np.dtype(dtype))


def canon_tf(d) -> dict:
    """d: tf.dtypes.DType.  Identity via as_numpy_dtype when that is a NumPy scalar
    type, cross-checked against the DType's own is_* flags."""
    import numpy as np

    try:
        a = d.as_numpy_dtype
    except Exception:  # resource / variant have no NumPy counterpart
        a = None
    if d.is_bool:
        fk = "bool"
    elif d.is_complex:
        fk = "complex"
    elif d.is_floating:
        fk = "float"
    elif d.is_integer:
        fk = "uint" if d.is_unsigned else "int"
    else:
        fk = "other"
    if isinstance(a, type) and issubclass(a, np.generic):
        c = canon_numpy(np.dtype(a))
        if c["kind"] != fk:
            raise ValueError(f"tf {d!r}: flags say {fk}, NumPy says {c['kind']}")
        c["names"] = sorted(set(c["names"]) | {d.name})
        return c
    names = {d.name}
    if a is not None and hasattr(a, "__name__"):
        names.add(a.__name__)
    return dict(kind="other" if fk == "other" else fk, bits=None, name=d.name, names=sorted(names))


def unknown_name(name: str, must_reject: bool) -> dict:
    """A duck dtype that is only a string no library defines.  kind 'other' means
    'belongs to no documented category'; kind 'unknown' means the statement is
    silent (built-ins are don't-care, user categories go by name)."""
    return dict(kind="other" if must_reject else "unknown", bits=None, name=name, names=[name])


def ident_of(c: dict):
    return (c["kind"], c["bits"], c["name"])


def documented(c: dict) -> bool:
    return c["kind"] in ("bool", "key") or ident_of(c) in _DOCUMENTED_IDENTS


# --- expectations ---------------------------------------------------------------------


def expect_builtin(c: dict, category: str) -> str:
    if category == "Shaped":
        return ACCEPT
    if c["kind"] == "unknown":
        return DC
    if category in PRECISION:
        return ACCEPT if ident_of(c) == PRECISION[category] else REJECT
    kinds = CATEGORY_KINDS[category]
    if c["kind"] not in kinds:
        return REJECT
    return ACCEPT if documented(c) else DC


def expect_user(c: dict, strs, patterns) -> str:
    """strs: names; patterns: regex source strings ('matches' = Pattern.match)."""
    comp = [re.compile(p) for p in patterns]
    out = set()
    for n in c["names"]:
        out.add(n in strs or any(p.match(n) is not None for p in comp))
    if out == {True}:
        return ACCEPT
    if out == {False}:
        return REJECT
    return DC


def expect_struct(c: dict, struct_str: str, np_equal) -> str:
    """make_numpy_struct_dtype(S): 'performs an exact match on the name, order, and
    dtype of all its fields'.  np_equal: result of `carried np.dtype == S` as decided
    by NumPy, or None when the carrier holds no NumPy dtype (then S cannot match
    unless the carrier happens to be *named* like S, which is left open)."""
    if np_equal is None:
        return DC if struct_str in c["names"] else REJECT
    return ACCEPT if np_equal else REJECT
