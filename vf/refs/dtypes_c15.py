"""Reference reading of the dtype hierarchy of docs/api/array.md, for C15.

Written from the documentation's "Dtype" list; never reads jaxtyping.  The
universe is the set of dtypes the documentation names (directly, as a precision
specific class) plus the five 8-bit floating dtypes for which the package exports a
precision class (`Float8e4m3b11fnuz`, `Float8e4m3fn`, `Float8e4m3fnuz`, `Float8e5m2`,
`Float8e5m2fnuz`: exported by jaxtyping/__init__.py next to `BFloat16`..`Float64`,
not listed in docs/api/array.md; read as "floating point, of particular precision");
categories are sets over that universe, `ANY` is `Shaped` ("any dtype at all").

Besides the documented categories the module describes categories a USER declares
through the documented extension point (`class C(AbstractDtype): dtypes = ...`):
`names:<id>+<id>..` lists plain dtype NAMES ("an exact match is required"), chosen so
that the names collide under every sloppy comparison (prefix, suffix, case, regex
wildcard, regex alternation, regex metacharacters that do not even compile);
`struct:<id>` is what `make_numpy_struct_dtype` documents ("exact match on the name,
order, and dtype of all its fields").

Abstract dtype identities ('bool', 'uint8', 'bfloat16', 'key', ...) are mapped to
the *concrete* name an array library presents (`dtype.type.__name__`) by NumPy /
ml_dtypes introspection, e.g. 'bool' -> 'bool_' on NumPy 1.x.
"""
from __future__ import annotations

ANY = "ANY"

KIND = {
    "bool": ["bool"],
    "key": ["key"],
    "uint": ["uint2", "uint4", "uint8", "uint16", "uint32", "uint64"],
    "int": ["int2", "int4", "int8", "int16", "int32", "int64"],
    "float": ["float8_e4m3b11fnuz", "float8_e4m3fn", "float8_e4m3fnuz", "float8_e5m2", "float8_e5m2fnuz", "bfloat16", "float16", "float32", "float64"],
    "complex": ["complex64", "complex128"],
}
UNIVERSE = [d for k in ("bool", "key", "uint", "int", "float", "complex") for d in KIND[k]]

# category -> kinds it contains (None = everything)
CAT_KINDS = {
    "Shaped": None,
    "Bool": ["bool"],
    "Key": ["key"],
    "Num": ["uint", "int", "float", "complex"],
    "Inexact": ["float", "complex"],
    "Float": ["float"],
    "Complex": ["complex"],
    "Integer": ["uint", "int"],
    "UInt": ["uint"],
    "Int": ["int"],
    "Real": ["float", "uint", "int"],
}
# exported 8-bit float precision classes: class name -> dtype name.  Two pairs of these
# names are proper prefixes of one another (float8_e5m2 / float8_e5m2fnuz, float8_e4m3fn /
# float8_e4m3fnuz).
FLOAT8 = {
    "Float8e4m3b11fnuz": "float8_e4m3b11fnuz",
    "Float8e4m3fn": "float8_e4m3fn",
    "Float8e4m3fnuz": "float8_e4m3fnuz",
    "Float8e5m2": "float8_e5m2",
    "Float8e5m2fnuz": "float8_e5m2fnuz",
}
PRECISION = {
    **FLOAT8,
    "BFloat16": "bfloat16",
    "Float16": "float16",
    "Float32": "float32",
    "Float64": "float64",
    "Complex64": "complex64",
    "Complex128": "complex128",
    **{f"UInt{n}": f"uint{n}" for n in (2, 4, 8, 16, 32, 64)},
    **{f"Int{n}": f"int{n}" for n in (2, 4, 8, 16, 32, 64)},
}

GENERAL = list(CAT_KINDS)
CATS16 = GENERAL + ["Float32", "Int8", "UInt8", "Complex64", "BFloat16"]
CATS8 = ["Shaped", "Bool", "Num", "Float", "Int", "UInt", "Float32", "Key"]


# ---- user categories over colliding plain names -----------------------------------
# id -> dtype name.  'i8' and 'f32' are the base names (also identities of the documented
# universe, so they meet Int8 / Int / Float32 / Float); every other name is related to a base
# name (or to another entry) by one relation that a comparison other than string equality
# confuses.
NAMES = {
    "i8": "int8",
    "i8x": "int8x",  # the base is a proper prefix of it        (startswith, re.match)
    "xi8": "xint8",  # the base is a proper suffix of it        (endswith, re.search)
    "I8": "Int8",  # differs by case only                      (lower(), re.IGNORECASE)
    "f32": "float32",
    "fdot": "f.oat32",  # as a regex it matches the other base name   (no escaping)
    "alt": "int8|float32",  # as a regex it matches both base names    (alternation)
    "plus": "a+b",  # as a regex it matches 'ab', 'aab', not itself
    "aab": "aab",
    "paren": "(x",  # not a valid regex
    "brack": "[y",  # not a valid regex
}
# names that no category lists, probed only: shorter / longer neighbours of the names above
# (none of them is a dtype of any array library, so no reading of a documented category contains them)
NAME_NEIGHBOURS = ["int", "int8xy", "ab", "x", "float8_e5m", "float8_e5m2fnuzx"]
STRUCTS = {
    "f": [("f", "u1")],
    "fg": [("f", "u1"), ("g", "i1")],
}
NAME_CATS_ALL = "names:ALL"  # lists every name above
NAME_CATS = ["names:" + i for i in NAMES] + ["names:i8+i8x", "names:i8x+xi8", "names:f32+fdot", "names:alt+plus+paren", NAME_CATS_ALL] + ["struct:" + i for i in STRUCTS]


def struct_name(ident: str) -> str:
    """dtype name of a documented struct category = str() of the NumPy structured dtype."""
    import numpy as np

    return str(np.dtype(STRUCTS[ident]))


def members(cat: str):
    """ANY or a frozenset of abstract dtype identities."""
    if cat.startswith("names:"):
        return frozenset(NAMES.values() if cat == NAME_CATS_ALL else (NAMES[i] for i in cat[6:].split("+")))
    if cat.startswith("struct:"):
        return frozenset([struct_name(cat[7:])])
    if cat in PRECISION:
        return frozenset([PRECISION[cat]])
    kinds = CAT_KINDS[cat]
    if kinds is None:
        return ANY
    return frozenset(d for k in kinds for d in KIND[k])


def intersect(*sets):
    out = ANY
    for s in sets:
        if s == ANY:
            continue
        out = s if out == ANY else (out & s)
    return out


_concrete = {}


def concrete(abstract: str) -> str:
    """Name that a NumPy/JAX array of that dtype presents as dtype.type.__name__."""
    if abstract in _concrete:
        return _concrete[abstract]
    if abstract not in UNIVERSE:
        return abstract  # a user's plain name / struct name is its own concrete name
    import numpy as np

    if abstract == "key":
        name = "prng_key"  # validated against jax.random.key(0).dtype.type.__name__ by C15's alias job
    elif abstract == "bool":
        name = np.dtype(np.bool_).type.__name__
    elif hasattr(np, abstract):
        name = np.dtype(getattr(np, abstract)).type.__name__
    else:
        try:
            import ml_dtypes

            name = np.dtype(getattr(ml_dtypes, abstract)).type.__name__
        except Exception:  # noqa: BLE001
            name = abstract
    _concrete[abstract] = name
    return name


# ---- python / numpy scalar types -----------------------------------------------
# kind of the scalar type; 'number' = abstract numeric NumPy scalar
SCALAR_KIND = {"bool": "bool", "int": "int", "float": "float", "complex": "complex", "np.bool_": "bool", "np.number": "number"}


# user-defined categories (built by the check from these bodies): name -> (dtypes entries
# ['re:<pattern>' = compiled pattern], kinds kept (None = all), kinds that are don't-care because
# only one precision of the kind is listed)
USER_CATS = {
    "user:re_float": (["re:float.*"], ["float"], []),
    "user:re_intcomplex": (["re:int.*", "re:complex\\d+"], ["int", "complex"], []),
    "user:mix": (["int8", "re:float.*"], ["float"], ["int"]),
    "user:re_all": (["re:.*"], None, []),
    "user:str_kinds": (["float16", "float32", "float64", "bool"], ["float", "bool"], []),
}


def scalar_rule(cat: str, axes, scalar: str) -> str:
    """'keep' | 'drop' | 'dc' for `cat[scalar_type, dims]`.

    Kept iff every axis is a multi-axis specifier (the shape admits rank 0) and the
    category contains the scalar's kind.  Don't-care: precision-specific categories
    (is a Python float a Float32?), and np.number in any category other than
    Shaped / Num (the statement speaks about the Python scalar types only)."""
    if any(ax[0] not in ("anonvar", "var") for ax in axes):
        return "drop"
    if cat in USER_CATS:
        keep, dc = USER_CATS[cat][1], USER_CATS[cat][2]
        k = SCALAR_KIND[scalar]
        if k == "number":
            return "keep" if keep is None else "dc"
        if keep is None or k in keep:
            return "keep"
        return "dc" if k in dc else "drop"
    if cat in PRECISION:
        return "dc"
    kinds = CAT_KINDS[cat]
    k = SCALAR_KIND[scalar]
    if k == "number":
        return "keep" if cat in ("Shaped", "Num") else "dc"
    if kinds is None:
        return "keep"
    return "keep" if k in kinds else "drop"
