"""Reference reading of the dtype hierarchy of docs/api/array.md, for C15.

Written from the documentation's "Dtype" list; never reads jaxtyping.  The
universe is the set of dtypes the documentation names (directly, as a precision
specific class); categories are sets over that universe, `ANY` is `Shaped`
("any dtype at all").

Abstract dtype identities ('bool', 'uint8', 'bfloat16', 'key', ...) are mapped to
the *concrete* name an array library presents (`dtype.type.__name__`) by NumPy /
ml_dtypes introspection, e.g. 'bool' -> 'bool_' on NumPy 1.x.
"""
from __future__ import annotations

ANY = "ANY"

KIND = {
    "bool": ["bool"],
    "key": ["key"],
    "uint": ["uint2", "uint4", "uint8", "uint16", "uint32", "uint64"],
    "int": ["int2", "int4", "int8", "int16", "int32", "int64"],
    "float": ["bfloat16", "float16", "float32", "float64"],
    "complex": ["complex64", "complex128"],
}
UNIVERSE = [d for k in ("bool", "key", "uint", "int", "float", "complex") for d in KIND[k]]

# category -> kinds it contains (None = everything)
CAT_KINDS = {
    "Shaped": None,
    "Bool": ["bool"],
    "Key": ["key"],
    "Num": ["uint", "int", "float", "complex"],
    "Inexact": ["float", "complex"],
    "Float": ["float"],
    "Complex": ["complex"],
    "Integer": ["uint", "int"],
    "UInt": ["uint"],
    "Int": ["int"],
    "Real": ["float", "uint", "int"],
}
PRECISION = {
    "BFloat16": "bfloat16",
    "Float16": "float16",
    "Float32": "float32",
    "Float64": "float64",
    "Complex64": "complex64",
    "Complex128": "complex128",
    **{f"UInt{n}": f"uint{n}" for n in (2, 4, 8, 16, 32, 64)},
    **{f"Int{n}": f"int{n}" for n in (2, 4, 8, 16, 32, 64)},
}

GENERAL = list(CAT_KINDS)
CATS16 = GENERAL + ["Float32", "Int8", "UInt8", "Complex64", "BFloat16"]
CATS8 = ["Shaped", "Bool", "Num", "Float", "Int", "UInt", "Float32", "Key"]


def members(cat: str):
    """ANY or a frozenset of abstract dtype identities."""
    if cat in PRECISION:
        return frozenset([PRECISION[cat]])
    kinds = CAT_KINDS[cat]
    if kinds is None:
        return ANY
    return frozenset(d for k in kinds for d in KIND[k])


def intersect(*sets):
    out = ANY
    for s in sets:
        if s == ANY:
            continue
        out = s if out == ANY else (out & s)
    return out


_concrete = {}


def concrete(abstract: str) -> str:
    """Name that a NumPy/JAX array of that dtype presents as dtype.type.__name__."""
    if abstract in _concrete:
        return _concrete[abstract]
    import numpy as np

    if abstract == "key":
        name = "prng_key"  # validated against jax.random.key(0).dtype.type.__name__ by C15's alias job
    elif abstract == "bool":
        name = np.dtype(np.bool_).type.__name__
    elif hasattr(np, abstract):
        name = np.dtype(getattr(np, abstract)).type.__name__
    else:
        try:
            import ml_dtypes

            name = np.dtype(getattr(ml_dtypes, abstract)).type.__name__
        except Exception:  # noqa: BLE001
            name = abstract
    _concrete[abstract] = name
    return name


# ---- python / numpy scalar types -----------------------------------------------
# kind of the scalar type; 'number' = abstract numeric NumPy scalar
SCALAR_KIND = {"bool": "bool", "int": "int", "float": "float", "complex": "complex", "np.bool_": "bool", "np.number": "number"}


# user-defined categories (built by the check from these bodies): name -> (dtypes entries
# ['re:<pattern>' = compiled pattern], kinds kept (None = all), kinds that are don't-care because
# only one precision of the kind is listed)
USER_CATS = {
    "user:re_float": (["re:float.*"], ["float"], []),
    "user:re_intcomplex": (["re:int.*", "re:complex\\d+"], ["int", "complex"], []),
    "user:mix": (["int8", "re:float.*"], ["float"], ["int"]),
    "user:re_all": (["re:.*"], None, []),
    "user:str_kinds": (["float16", "float32", "float64", "bool"], ["float", "bool"], []),
}


def scalar_rule(cat: str, axes, scalar: str) -> str:
    """'keep' | 'drop' | 'dc' for `cat[scalar_type, dims]`.

    Kept iff every axis is a multi-axis specifier (the shape admits rank 0) and the
    category contains the scalar's kind.  Don't-care: precision-specific categories
    (is a Python float a Float32?), and np.number in any category other than
    Shaped / Num (the statement speaks about the Python scalar types only)."""
    if any(ax[0] not in ("anonvar", "var") for ax in axes):
        return "drop"
    if cat in USER_CATS:
        keep, dc = USER_CATS[cat][1], USER_CATS[cat][2]
        k = SCALAR_KIND[scalar]
        if k == "number":
            return "keep" if keep is None else "dc"
        if keep is None or k in keep:
            return "keep"
        return "dc" if k in dc else "drop"
    if cat in PRECISION:
        return "dc"
    kinds = CAT_KINDS[cat]
    k = SCALAR_KIND[scalar]
    if k == "number":
        return "keep" if cat in ("Shaped", "Num") else "dc"
    if kinds is None:
        return "keep"
    return "keep" if k in kinds else "drop"
