"""Reference PyTree semantics, independent of jax.tree_util.

Trees: tuple / list / dict (keys sorted) / None / namedtuple / fixtures.Node are
internal nodes; everything else is a leaf.  A structure is a nested tuple:
  '*'                      a leaf
  ('tuple', c1, .., cn) | ('list', ...) | ('dict', (k1..kn), c1..cn)
  ('none',) | ('nt', typename, c1..cn) | ('node', tag, c1..cn)
"""
from __future__ import annotations

LEAF = "*"


def is_namedtuple(x):
    return isinstance(x, tuple) and hasattr(type(x), "_fields")


def children(x):
    """-> (kind_header, [children]) or None if x is a leaf by nature."""
    if x is None:
        return ("none",), []
    if is_namedtuple(x):
        return ("nt", type(x).__name__), list(x)
    t = type(x)
    if t is tuple:
        return ("tuple",), list(x)
    if t is list:
        return ("list",), list(x)
    if t is dict:
        ks = sorted(x)
        return ("dict", tuple(ks)), [x[k] for k in ks]
    if getattr(t, "_vf_pytree_node", False):
        return ("node", t.__name__), list(x.children)
    return None


def flatten(x, is_leaf=None):
    """Top-down: a node for which is_leaf holds is a leaf.  -> (leaves, structure)"""
    if is_leaf is not None and is_leaf(x):
        return [x], LEAF
    ch = children(x)
    if ch is None:
        return [x], LEAF
    hdr, kids = ch
    leaves, structs = [], []
    for k in kids:
        l, s = flatten(k, is_leaf)
        leaves += l
        structs.append(s)
    return leaves, hdr + tuple(structs)


def structure(x):
    return flatten(x)[1]


def n_leaves(s):
    if s == LEAF:
        return 1
    return sum(n_leaves(c) for c in _kids(s))


def _kids(s):
    if s == LEAF:
        return ()
    k = s[0]
    if k in ("tuple", "list", "none"):
        return s[1:]
    return s[2:]


def _hdr(s):
    k = s[0]
    if k in ("tuple", "list", "none"):
        return s[:1]
    return s[:2]


def compose(outer, inner):
    """Replace every leaf of `outer` by `inner`."""
    if outer == LEAF:
        return inner
    return _hdr(outer) + tuple(compose(c, inner) for c in _kids(outer))


def compose_all(structs):
    out = LEAF
    for s in structs:
        out = compose(out, s)
    return out


def is_prefix(p, x):
    """x is obtained from p by replacing leaves of p with arbitrary subtrees."""
    if p == LEAF:
        return True
    if x == LEAF:
        return False
    if _hdr(p) != _hdr(x) or len(_kids(p)) != len(_kids(x)):
        return False
    return all(is_prefix(a, b) for a, b in zip(_kids(p), _kids(x)))


def is_suffix(t, x):
    """exists O with compose(O, t) == x  (the bottom layer of x consists of copies of t)."""
    if x == t:
        return True
    if x == LEAF:
        return False
    return all(is_suffix(t, c) for c in _kids(x))


def unflatten_dummy(s, fill=0):
    """A concrete tree (over real Python containers) with structure s.  namedtuple /
    node structures need the fixture classes and are rebuilt by the caller."""
    if s == LEAF:
        return fill
    k = s[0]
    kids = [unflatten_dummy(c, fill) for c in _kids(s)]
    if k == "tuple":
        return tuple(kids)
    if k == "list":
        return kids
    if k == "none":
        return None
    if k == "dict":
        return dict(zip(s[1], kids))
    raise ValueError(k)
