"""Reference matcher for leaf types and PyTree annotations (specs of vf/specs.py).

ctx = (single, var, structs)   structs: {name: structure}
match(x, L, ctx, mode, leafkey) -> (ok, ctx')      mode 'type' | 'full'
pytree_check(x, spec, ctx)       -> (verdict, ctx', allowed)
"""
from __future__ import annotations

from . import dims as rdims
from . import pytrees as rpt
from . import shapes as rshapes
from .shapes import ANNOT

FLOATS = {"float16", "float32", "float64", "bfloat16"}
INTS = {"int8", "int16", "int32", "int64"}
CATS = {
    "Float": FLOATS,
    "Int": INTS,
    "Shaped": None,
    "Float32": {"float32"},
    "Num": FLOATS | INTS | {"uint8", "complex64"},
}


class RefAnnot(Exception):
    pass


class RefDontCare(Exception):
    pass


def _is_array(x, cls):
    from ..adapter import Duck, Duck2

    if cls == "Any":
        return hasattr(x, "shape") and hasattr(x, "dtype")
    if cls == "np":
        import numpy as np

        return isinstance(x, np.ndarray)
    return isinstance(x, {"Duck": Duck, "Duck2": Duck2}[cls])


def match(x, L, ctx, mode="full", leafkey=None):
    k = L[0]
    if k == "narr":  # an annotation extended by nesting == the flat annotation "outer inner"
        return match(x, ["arr", (L[1] + " " + L[2]).strip()], ctx, mode, leafkey)
    if k == "nonelit":
        return x is None, ctx
    if k == "fwd":  # string annotation naming a builtin type
        return match(x, [L[1]], ctx, mode, leafkey)
    if k == "any":
        return True, ctx
    if k == "int":
        return isinstance(x, int), ctx
    if k == "str":
        return isinstance(x, str), ctx
    if k == "none":
        return x is None, ctx
    if k == "opt":
        if x is None:
            return True, ctx
        return match(x, L[1], ctx, mode, leafkey)
    if k == "union":
        for alt in L[1]:
            ok, c2 = match(x, alt, ctx, mode, leafkey)
            if ok:
                return True, c2
        return False, ctx
    if k == "tuple":
        if not isinstance(x, tuple) or len(x) != len(L[1]):
            return False, ctx
        c = ctx
        for xi, Li in zip(x, L[1]):
            ok, c = match(xi, Li, c, mode, leafkey)
            if not ok:
                return False, ctx
        return True, c
    if k == "arr":
        cat = L[2] if len(L) > 2 else "Float"
        cls = L[3] if len(L) > 3 else "Duck"
        if not _is_array(x, cls):
            return False, ctx
        if mode == "type":
            return True, ctx
        dts = CATS[cat]
        if dts is not None and str(x.dtype) not in dts:
            return False, ctx
        st, axes = rdims.parse(L[1])
        assert st == "ok", L
        v, new, allowed = rshapes.step((ctx[0], ctx[1]), axes, tuple(x.shape), None, leafkey)
        if len(allowed) > 1:
            raise RefDontCare(str(L))
        if v == ANNOT:
            raise RefAnnot(str(L))
        if v:
            return True, (new[0], new[1], ctx[2])
        return False, ctx
    if k == "pytree":
        if mode == "type":
            if len(L) > 2 and L[2] is not None:
                raise RefDontCare("structured PyTree as flatten-time leaf test")
            if len(L) == 1:
                return True, ctx
            # structure-less PyTree[L'] looked at by type only: every leaf (a subtree that
            # type-matches L' counts as a leaf) type-matches L'
            inner = L[1]
            if x is None:
                return True, ctx
            leaves, _ = rpt.flatten(x, is_leaf=lambda y: match(y, inner, ctx, "type")[0])
            return all(match(l, inner, ctx, "type")[0] for l in leaves), ctx
        v, c2, allowed = pytree_check(x, L, ctx, outer_leafkey=leafkey)
        if len(allowed) > 1:
            raise RefDontCare(str(L))
        if v == ANNOT:
            raise RefAnnot(str(L))
        return v, c2
    raise ValueError(L)


def has_treepath(L):
    if L[0] == "narr":
        return has_treepath(["arr", L[1] + " " + L[2]])
    if L[0] == "arr":
        st, axes = rdims.parse(L[1])
        return any(len(a) > 3 and a[3] for a in axes)
    if L[0] in ("tuple", "union"):
        return any(has_treepath(x) for x in L[1])
    if L[0] in ("opt", "pytree") and len(L) > 1:
        return has_treepath(L[1])
    return False


def parse_structure(s):
    """-> ('ident', name) | ('composite', pieces, mode) with mode in exact/prefix/suffix"""
    pieces = s.split()
    if len(pieces) == 1 and pieces[0] != "...":
        return ("ident", pieces[0])
    mode = "exact"
    if pieces[0] == "...":
        pieces, mode = pieces[1:], "suffix"
    elif pieces[-1] == "...":
        pieces, mode = pieces[:-1], "prefix"
    return ("composite", pieces, mode)


def pytree_check(x, spec, ctx, outer_leafkey=None):
    """Reference for isinstance(x, PyTree[L, struct]).  Returns (verdict, ctx', allowed)."""
    if len(spec) == 1:
        return True, ctx, {True}
    L = spec[1]
    st = spec[2] if len(spec) > 2 else None
    if x is None:
        # accommodation stated by C08: a top-level None is always accepted (binds nothing)
        return True, ctx, {True}
    inner = L
    while inner[0] == "pytree" and (len(inner) < 3 or inner[2] is None) and len(inner) > 1:
        inner = inner[1]  # PyTree[PyTree[L]] == PyTree[L]
    Leff = inner if L[0] == "pytree" and (len(L) < 3 or L[2] is None) else L
    try:
        if Leff[0] == "any":
            leaves, s = rpt.flatten(x)
        else:
            leaves, s = rpt.flatten(x, is_leaf=lambda y: match(y, Leff, ctx, "type")[0])
    except RefDontCare:
        return None, ctx, {True, False, ANNOT}
    single, var, structs = ctx
    structs = dict(structs)
    if st is not None:
        ps = parse_structure(st)
        if ps[0] == "ident":
            if ps[1] in structs:
                if structs[ps[1]] != s:
                    return False, ctx, {False}
            else:
                structs[ps[1]] = s
        else:
            _, pieces, mode = ps
            for p in pieces:
                if p not in structs:
                    return ANNOT, ctx, {ANNOT}
            named = rpt.compose_all([structs[p] for p in pieces])
            ok = {"exact": s == named, "prefix": rpt.is_prefix(named, s), "suffix": rpt.is_suffix(named, s)}[mode]
            if not ok:
                return False, ctx, {False}
    c = (single, var, structs)
    try:
        for i, leaf in enumerate(leaves):
            lk = outer_leafkey
            if st is not None:
                if outer_leafkey is not None:
                    if has_treepath(Leff):
                        return ANNOT, ctx, {ANNOT}  # '?' beneath two structured PyTrees is ambiguous
                    return None, ctx, {True, False, ANNOT}  # statements are silent on nested structured PyTrees without '?'
                lk = f"({st}#{i}) "
            ok, c = match(leaf, Leff, c, "full", lk)
            if not ok:
                return False, ctx, {False}
    except RefAnnot:
        return ANNOT, ctx, {ANNOT}
    except RefDontCare:
        return None, ctx, {True, False, ANNOT}
    return True, c, {True}
