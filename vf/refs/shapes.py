"""Reference semantics of shape matching, two independent readings.

(a) `step`: bind-or-compare over an abstract context, exactly as C01 words it.
    Context = (single: {name: size}, var: {name: (exact?, shape)}).
(b) `satisfiable`: denotational.  A list of (axes, shape) constraints is accepted
    iff there EXISTS an assignment sigma (sizes for names, shapes for *names)
    under which every constraint matches.  Decided by brute force over the
    finitely many candidate values; never walks constraints in order.

Both work on the abstract axes of refs/dims.py.  Verdicts are
True / False / 'AnnotationError' / DONTCARE (a set of allowed outcomes).
"""
from __future__ import annotations

import itertools

from .dims import is_multi

ANNOT = "AnnotationError"


def broadcast(a, b):
    """Joint broadcast of two shapes, or None."""
    out = []
    for x, y in itertools.zip_longest(reversed(a), reversed(b), fillvalue=1):
        if x == y or y == 1:
            out.append(x)
        elif x == 1:
            out.append(y)
        else:
            return None
    return tuple(reversed(out))


def ev(expr: str, single: dict, args: dict):
    """Value of a symbolic axis: {arg} interpolation, then arithmetic over bound
    sizes.  Raises NameError if a name is not bound."""
    s = eval("f" + repr(expr), {"__builtins__": __builtins__}, dict(args))
    return eval(s, {"__builtins__": __builtins__}, dict(single))


def _split(axes, shape):
    """Split shape against axes -> (pairs_prefix, pairs_suffix, var_axis, var_shape) or None if rank mismatch."""
    iv = [i for i, a in enumerate(axes) if is_multi(a)]
    if not iv:
        if len(axes) != len(shape):
            return None
        return list(zip(axes, shape)), [], None, None
    i = iv[0]
    nsuf = len(axes) - i - 1
    if len(shape) < len(axes) - 1:
        return None
    pre = list(zip(axes[:i], shape[:i]))
    suf = list(zip(axes[i + 1 :], shape[len(shape) - nsuf :])) if nsuf else []
    return pre, suf, axes[i], tuple(shape[i : len(shape) - nsuf])


def step(ctx, axes, shape, args=None, leafkey=None):
    """Reference (a).  ctx = (single, var) is NOT mutated.

    Returns (verdict, new_ctx, allowed) where verdict in {True, False, ANNOT};
    `allowed` is the set of outcomes the property statement tolerates (a
    don't-care zone when it has more than one element):
      * a definite mismatch AND an unevaluable symbolic axis / misplaced '?' in
        the same check: False or AnnotationError;
      * '#expr' of size 1 whose expression cannot be evaluated: accepted by the
        '#' rule or AnnotationError.
    leafkey: prefix for '?' axes (None outside a structured PyTree -> ANNOT).
    """
    args = args or {}
    single, var = dict(ctx[0]), dict(ctx[1])
    sp = _split(axes, shape)
    if sp is None:
        return False, ctx, {False}
    pre, suf, vax, vshape = sp
    mis = annot = soft = False
    first = None
    for ax, size in pre + suf:
        k = ax[0]
        if k == "anon":
            continue
        if k == "fixed":
            if not (size == ax[1] or (ax[2] and size == 1)):
                mis = True
                first = first or "mis"
        elif k == "named":
            name = ax[1]
            if ax[3]:
                if leafkey is None:
                    annot = True
                    first = first or "annot"
                    continue
                name = leafkey + name
            if ax[2] and size == 1:
                continue
            if name in single:
                if single[name] != size:
                    mis = True
                    first = first or "mis"
            else:
                single[name] = size
        elif k == "sym":
            try:
                val = ev(ax[1], single, args)
            except NameError:
                if ax[2] and size == 1:
                    soft = True
                else:
                    annot = True
                    first = first or "annot"
                continue
            if not (val == size or (ax[2] and size == 1)):
                mis = True
                first = first or "mis"
        else:
            raise AssertionError(ax)
    if vax is not None and vax[0] == "var":
        name = vax[1]
        bc = vax[2]
        vmis = False
        if vax[3]:
            if leafkey is None:
                annot = True
                first = first or "annot"
                name = None
            else:
                name = leafkey + name
        if name is not None:
            if name not in var:
                var[name] = (not bc, vshape)
            else:
                exact, prev = var[name]
                b = broadcast(vshape, prev)
                if exact:
                    vmis = (b != prev) if bc else (vshape != prev)
                else:
                    if b is None:
                        vmis = True
                    elif bc:
                        var[name] = (False, b)
                    elif b != vshape:
                        vmis = True
                    else:
                        var[name] = (True, vshape)
        if vmis:
            mis = True
            first = first or "mis"
    if annot and mis:
        return (ANNOT if first == "annot" else False), ctx, {False, ANNOT}
    if annot:
        return ANNOT, ctx, {ANNOT}
    if mis:
        return False, ctx, ({False, ANNOT} if soft else {False})
    return True, (single, var), ({True, ANNOT} if soft else {True})


# --------------------------------------------------------------------------- (b)


def _names(axes_list):
    singles, vars_ = set(), set()
    for axes in axes_list:
        for ax in axes:
            if ax[0] == "named":
                singles.add(ax[1])
            elif ax[0] == "var":
                vars_.add(ax[1])
    return sorted(singles), sorted(vars_)


def _match(axes, shape, sig_s, sig_v, args):
    sp = _split(axes, shape)
    if sp is None:
        return False
    pre, suf, vax, vshape = sp
    for ax, size in pre + suf:
        k = ax[0]
        if k == "anon":
            continue
        if k == "fixed":
            if not (size == ax[1] or (ax[2] and size == 1)):
                return False
        elif k == "named":
            if not (size == sig_s[ax[1]] or (ax[2] and size == 1)):
                return False
        elif k == "sym":
            val = ev(ax[1], sig_s, args)
            if not (size == val or (ax[2] and size == 1)):
                return False
    if vax is not None and vax[0] == "var":
        v = sig_v[vax[1]]
        if vax[2]:
            if broadcast(vshape, v) != v:
                return False
        elif vshape != v:
            return False
    return True


def satisfiable(constraints, args=None):
    """Reference (b): constraints = [(axes, shape), ...].  True iff some sigma
    satisfies all of them.  Names that occur only in symbolic expressions (never
    as a plain axis) make the question ill-posed -> raises NameError."""
    args = args or {}
    axes_list = [a for a, _ in constraints]
    singles, vars_ = _names(axes_list)
    sizes = sorted({s for _, sh in constraints for s in sh} | {1})
    # candidate shapes for *names: every contiguous slice of every shape, and
    # their pairwise/joint broadcasts
    slices = {()}
    for _, sh in constraints:
        for i in range(len(sh) + 1):
            for j in range(i, len(sh) + 1):
                slices.add(tuple(sh[i:j]))
    cands = set(slices)
    frontier = set(slices)
    for _ in range(2):
        nxt = set()
        for a in frontier:
            for b in slices:
                c = broadcast(a, b)
                if c is not None and c not in cands:
                    nxt.add(c)
        cands |= nxt
        frontier = nxt
    cands = sorted(cands)
    for sv in itertools.product(sizes, repeat=len(singles)):
        sig_s = dict(zip(singles, sv))
        for vv in itertools.product(cands, repeat=len(vars_)):
            sig_v = dict(zip(vars_, vv))
            if all(_match(a, sh, sig_s, sig_v, args) for a, sh in constraints):
                return True
    return False
