"""Extensions of refs/dims.py used by C14 (and the dim strings of C15).

Nothing here reads jaxtyping.  Three things live here:

* `classify(spec)`  -- refs.dims.parse plus one extra don't-care flag ("soft"):
  bases that the documentation neither lists as legal nor as illegal
  (negative integers, float literals) may be rejected with ValueError *or*
  accepted; when accepted they must still mean what the reference says.
* `canonical(spec)` -- the normal form of a legal spec: single-space joined,
  every token = modifiers sorted in the order '#*_?' + base, `name=` prefix
  dropped, '...' rewritten to '*_'.  C14 compares every spelling with its
  normal form differentially.
* the token / spec / whitespace generators that define the explored space.
"""
from __future__ import annotations

import functools
import itertools

from . import dims as rdims

MODS = "#*_?"
ORDER = {c: i for i, c in enumerate(MODS)}

# bases of the design; 'a#' added for the documented trailing-'#' form
BASES = ["a", "3", "a+1", "min(a,b)", "", "...", "-1", "1.5", "a=b=c", "é", "a#"]
SOFT_BASES = {"-1", "1.5"}


def split_token(tok: str):
    """(sorted modifier list, doc-prefix or None, base) of a token; same scanning
    rule as the documentation gives: modifiers and one `name=` prefix are
    *prepended* in any order to the base."""
    mods, doc, rest = [], None, tok
    while rest:
        c = rest[0]
        if c in MODS:
            mods.append(c)
            rest = rest[1:]
        elif rest.count("=") == 1 and doc is None:
            doc, rest = rest.split("=")
        else:
            break
    return mods, doc, rest


def canonical_token(tok: str) -> str:
    if tok == "...":
        return "*_"
    mods, _doc, base = split_token(tok)
    return "".join(sorted(set(mods), key=ORDER.get)) + base


def canonical(spec: str) -> str:
    return " ".join(canonical_token(t) for t in spec.split())


def classify(spec):
    """-> (status, axes_or_reason, soft) with status in ok / error / dontcare."""
    st, x = rdims.parse(spec)
    soft = False
    if st == "ok" and isinstance(spec, str):
        for tok in spec.split():
            if tok != "..." and split_token(tok)[2] in SOFT_BASES:
                soft = True
    return st, x, soft


def has_treepath(axes) -> bool:
    return any(ax[0] in ("named", "var") and ax[3] for ax in axes)


# ------------------------------------------------------------------ generators


def mod_strings(maxlen: int):
    out = []
    for k in range(maxlen + 1):
        out += ["".join(p) for p in itertools.product(MODS, repeat=k)]
    return out


def doc_variants(m: str, positions: str):
    """modifier string with a 'doc=' prefix at no / some / every position."""
    out = [m]
    if positions == "all":
        pos = range(len(m) + 1)
    elif positions == "ends":
        pos = sorted({0, len(m)})
    elif positions == "first":
        pos = [0]
    else:
        pos = []
    for i in pos:
        out.append(m[:i] + "doc=" + m[i:])
    return out


def tokens(maxmods: int, positions: str, bases=BASES):
    out, seen = [], set()
    for m in mod_strings(maxmods):
        for pre in doc_variants(m, positions):
            for b in bases:
                t = pre + b
                if t not in seen:
                    seen.add(t)
                    out.append(t)
    return out


SEPS = [" ", "  ", "\t", "\n", " \t\n "]
LEADS = ["", " ", "\n\t "]
TRAILS = ["", " ", " \t\n"]


def whitespace_variants(toks):
    """every way of writing the token sequence with the separator / leading /
    trailing alphabets above (the plain single-space form included)."""
    out = []
    for seps in itertools.product(SEPS, repeat=max(0, len(toks) - 1)):
        body = toks[0] if toks else ""
        for s, t in zip(seps, toks[1:]):
            body += s + t
        for lead in LEADS:
            for trail in TRAILS:
                out.append(lead + body + trail)
    return out


# ------------------------------------------------------------ the NAME alphabet
#
# The documentation defines a named axis by "any identifier"; the reference reads
# that as str.isidentifier().  The alphabet below is chosen so that every OTHER
# plausible notion of "name" (Python's expression grammar, ASCII-only regexes,
# keyword tables, numeric-literal parsers, NFKC normalisation) disagrees with
# str.isidentifier() on at least one member.


def _kw():
    import keyword

    return list(keyword.kwlist), list(keyword.softkwlist)


HARD_KEYWORDS, SOFT_KEYWORDS = _kw()  # 35 reserved words (incl. None/True/False); '_', 'case', 'match', 'type'
BUILTIN_NAMES = ["len", "min", "max", "abs", "sum", "int", "float", "print", "eval", "object", "Ellipsis", "NotImplemented", "__debug__"]
NONASCII_NAMES = [
    "α",  # Greek
    "名前",  # CJK (category Lo)
    "ñ",  # ASCII letter + combining mark (XID_Continue)
    "ℌ",  # NFKC-normalises to 'H' in Python source, but is its own identifier as a string
    "ĳ",  # ligature, NFKC -> 'ij'
    "µ",  # micro sign, NFKC -> Greek mu
    "ª",  # feminine ordinal (Lo)
    "a·b",  # middle dot: XID_Continue only
    "𝐱",  # astral plane (mathematical bold x)
    "x१",  # Devanagari digit continuing an identifier
]
ASCII_NAMES = ["A", "a1", "a_b", "x_", "nan", "inf", "e5", "j", "l", "O0"]  # look like float / exponent / imaginary literals to other parsers
NAMES = HARD_KEYWORDS + SOFT_KEYWORDS + BUILTIN_NAMES + NONASCII_NAMES + ASCII_NAMES
# one or two members of every class: used where the full modifier product (with repeats
# and `doc=` positions) or a product of tokens is taken
NAMES_REPR = ["in", "class", "None", "lambda", "match", "type", "len", "min", "α", "ñ", "ℌ", "nan"]
NAMES_REPR6 = ["in", "None", "class", "match", "len", "α"]


def mod_perms():
    """every subset of the four modifier characters in every order (65 strings, no repeats)"""
    out = []
    for k in range(len(MODS) + 1):
        out += ["".join(p) for p in itertools.permutations(MODS, k)]
    return out


def name_tokens(tier: str):
    """-> (tokens over the NAME alphabet, doc-position tokens): every name in every
    modifier combination in every order, without and with a leading `doc=`; the
    representative names additionally under the complete modifier-string product (with
    repeats, `doc=` inside)."""
    out, seen = [], set()

    def add(t):
        if t not in seen:
            seen.add(t)
            out.append(t)

    for n in NAMES:
        for m in mod_perms():
            add(m + n)
            add("doc=" + m + n)
            if tier != "quick":
                add(m + "doc=" + n)
    if tier == "quick":
        for t in tokens(3, "ends", NAMES_REPR):
            add(t)
    else:
        for t in tokens(4, "all", NAMES_REPR):
            add(t)
        for t in tokens(3, "ends", NAMES):
            add(t)
    return out


def name_pairs(tier: str):
    """two-token specs whose tokens are names (keywords, builtins, non-ASCII) with at
    most one modifier."""
    names = NAMES_REPR6 if tier == "quick" else NAMES_REPR
    mods = ["", "#", "*", "?"] if tier == "quick" else ["", "#", "*", "_", "?"]
    toks = [m + n for n in names for m in mods]
    return [f"{x} {y}" for x in toks for y in toks]


def name_docs():
    """names (keywords, ...) in the `name=` documentation-prefix position"""
    out = []
    for n in NAMES:
        out += [f"{n}=a", f"{n}=3", f"#{n}=a", f"{n}=*a", f"{n}=_", f"{n}=..."]
    return out


# fixed lists of documented illegal forms that the token product does not reach
COMMA_FORMS = ["a,b", "a, b", "a ,b", "a,", ",a", "3,4", "a,b c", "#a,*b", "a,b,c", "_,_", "...,a", "a b,c d"]
# a comma-separated token NEXT TO a token that legitimately contains a bracketed comma (a function
# call in a symbolic axis): the exemption for brackets is per token, not per specification
COMMA_FORMS += ["a,b min(a,b)", "min(a,b) a,b", "a,b (a+1)", "(a+1) a,b", "c a,b max(c,2) d", "min(a,b) c,d"]
TRAILING_HASH = ["a#", "3#", "*a#", "a+1#", "_#", "#a#", "a b#", "a# b", "doc=a#", "é#"]
TWO_MULTI = ["*a *b", "... ...", "*a ...", "... *a", "*_ *a", "*a b *c", "*#a *#a", "*a *a", "... a ...", "*_ ..."]
ELLIPSIS_MOD = ["#...", "*...", "_...", "?...", "doc=...", "#*...", "a #... b"]
# forms on which only totality (annotation or ValueError) is asserted
TOTALITY_ONLY = ["....", "...a", "a...", "=", "==", "a=", "=a", "a==b", "(", "a(", ")", "{", "{n}", "{n", "a b=", "\x00", "#=", "*=a", "a=*b", "'", '"', "a'b", "\\", "a.b", "a[0]", "1e3", "0x10", "١", "²", "a-", "+", "-", "*-1", "é=3", "3=a", "_=_", "?=?", "#doc", "0", "00", "+3", "1_000"]
NONSTRINGS = [("int", 3), ("NoneType", None), ("float", 3.5), ("tuple", ("a",)), ("list", ["a"]), ("bytes", b"a")]


# ------------------------------------------------- relatives (C14's history dimension)
#
# A "relative" of a spec is a different dim string that shares tokens / characters with
# it, so that any memory keyed by less than the whole string (a token, a whitespace-
# normalised or modifier-normalised form, ...) confuses the two.  Written from the list of
# documented illegal forms; the reference status of every relative is re-derived with
# `classify` (nothing is assumed about what the rewriting produced).


def all_multi(axes) -> bool:
    """Does the shape admit rank 0?  (every axis is a multi-axis specifier)"""
    return all(rdims.is_multi(a) for a in axes)


@functools.lru_cache(maxsize=1 << 17)
def _status(r: str) -> str:
    return classify(r)[0]


def _uniq(cands, spec, want):
    out, seen = [], {spec, spec.strip()}
    for r in cands:
        if r in seen or r.strip() in seen:
            continue
        seen.add(r)
        if _status(r) == want:
            out.append(r)
    return out


def illegal_relatives(spec: str):
    """Documented illegal forms made of the tokens of the (legal) `spec`: its axes
    between two '...' (two multi-axis specifiers), the spec twice (ditto, when it has a
    multi-axis specifier), its axes separated with commas, a trailing '#', its first
    modifier repeated."""
    toks = spec.split()
    cands = [f"... {spec.strip()} ...".replace("  ", " "), f"{spec.strip()} {spec.strip()}"]
    cands.append(",".join(toks) if len(toks) > 1 else spec.strip() + ",")
    if toks:
        cands.append(spec.strip() + "#")
        first = toks[0]
        rep = (first[0] + first) if first[0] in MODS else ("##" + first)
        cands.append(" ".join([rep] + toks[1:]))
    return _uniq(cands, spec, "error")


def legal_relatives(spec: str, cap: int = 8):
    """Legal forms made of the tokens of the (illegal) `spec`: every token alone, every
    token with its modifiers deduplicated and sorted, the whole spec so rewritten, every
    token with one of its leading modifier characters dropped, commas read as spaces, a trailing '#' moved to the front, every proper prefix of the token
    sequence."""
    toks = spec.split()
    cands = list(toks)
    cands += [canonical_token(t) for t in toks]
    cands.append(" ".join(canonical_token(t) for t in toks))
    for t in toks:  # one leading modifier character dropped
        i = 0
        while i < len(t) and t[i] in MODS:
            cands.append(t[:i] + t[i + 1 :])
            i += 1
    if "," in spec:
        cands.append(spec.replace(",", " ").strip())
        cands += spec.replace(",", " ").split()
    cands += ["#" + t[:-1] for t in toks if t.endswith("#") and len(t) > 1]
    cands.append(" ".join(("#" + t[:-1]) if (t.endswith("#") and len(t) > 1) else t for t in toks))
    for k in range(1, len(toks)):
        cands.append(" ".join(toks[:k]))
        cands.append(" ".join(toks[k:]))
    return _uniq(cands, spec, "ok")[:cap]
