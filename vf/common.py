"""Shared infrastructure: repo binding, results, evidence, known findings, pool.

Every check is a module ``vf.checks.cNN`` exposing ``run(ctx) -> Result``.  The
runner (``vf.__main__``) turns a Result into the evidence file, the replay
files, the KNOWN-FINDING / VIOLATION lines and the exit code.
"""
from __future__ import annotations

import concurrent.futures as cf
import dataclasses
import hashlib
import json
import multiprocessing as mp
import os
import sys
import time
from typing import Any, Callable, Iterable, Optional

VERIF_DIR = os.path.dirname(os.path.dirname(os.path.abspath(__file__)))
REPO = os.path.abspath(os.environ.get("VERIF_REPO", "/repo"))
NCPU = int(os.environ.get("VERIF_JOBS", str(min(16, os.cpu_count() or 1))))


def bind_repo() -> str:
    """Make ``import jaxtyping`` resolve to the working tree under REPO.

    jaxtyping is installed editable from /repo, so by default this is a no-op
    check; VERIF_REPO lets the seeded-change campaign point a check at a scratch
    copy without touching /repo.
    """
    if sys.path[0] != REPO:
        sys.path.insert(0, REPO)
    import jaxtyping  # noqa: F401

    f = os.path.abspath(jaxtyping.__file__)
    if not f.startswith(REPO + os.sep):
        raise HarnessError(f"jaxtyping imported from {f}, not from {REPO}")
    return REPO


class HarnessError(Exception):
    """Raised when the machinery itself misbehaves (exit status 2)."""


@dataclasses.dataclass
class Violation:
    key: str  # classifier output, used for known-finding matching
    what: str  # one-line human description
    replay: dict  # enough to re-execute without the explorer

    def to_json(self):
        return {"key": self.key, "what": self.what, "replay": self.replay}


@dataclasses.dataclass
class Result:
    level: str
    coverage: dict
    violations: list = dataclasses.field(default_factory=list)
    assumptions: list = dataclasses.field(default_factory=list)
    notes: list = dataclasses.field(default_factory=list)


@dataclasses.dataclass
class Ctx:
    prop: str
    tier: str
    seed: int

    @property
    def quick(self) -> bool:
        return self.tier == "quick"

    @property
    def thorough(self) -> bool:
        return self.tier == "thorough"


# --------------------------------------------------------------------------- pool


def _pool_init(repo: str):
    os.environ["VERIF_REPO"] = repo
    if sys.path[0] != repo:
        sys.path.insert(0, repo)
    import warnings

    warnings.simplefilter("ignore")


def pmap(fn: Callable, items: list, jobs: Optional[int] = None, chunksize: int = 1):
    """Deterministic parallel map (results in item order).  ``fn`` must be a
    module-level function.  Workers are spawned (not forked) so that JAX's
    threads in the parent can never be inherited half-alive."""
    jobs = jobs or NCPU
    if jobs <= 1 or len(items) <= 1:
        return [fn(x) for x in items]
    ctx = mp.get_context("spawn")
    with cf.ProcessPoolExecutor(
        max_workers=min(jobs, len(items)),
        mp_context=ctx,
        initializer=_pool_init,
        initargs=(REPO,),
    ) as ex:
        return list(ex.map(fn, items, chunksize=chunksize))


def shards(n_items: int, n_shards: int, seed: int = 0) -> list:
    """Index lists for round-robin sharding; the seed only rotates the order in
    which shards are handed out (coverage is seed-independent)."""
    n_shards = max(1, min(n_shards, n_items))
    out = [list(range(i, n_items, n_shards)) for i in range(n_shards)]
    r = seed % n_shards
    return out[r:] + out[:r]


# ----------------------------------------------------------------------- findings


def load_known() -> list:
    p = os.path.join(VERIF_DIR, "known_findings.json")
    if not os.path.exists(p):
        return []
    with open(p) as f:
        return json.load(f)["findings"]


def sha(obj) -> str:
    return hashlib.sha1(json.dumps(obj, sort_keys=True, default=repr).encode()).hexdigest()[:12]


def merge_counts(dicts: Iterable[dict]) -> dict:
    out: dict = {}
    for d in dicts:
        for k, v in d.items():
            if isinstance(v, (int, float)):
                out[k] = out.get(k, 0) + v
            elif isinstance(v, list):
                out.setdefault(k, []).extend(v)
            elif isinstance(v, set):
                out.setdefault(k, set()).update(v)
            elif isinstance(v, dict):
                out[k] = merge_counts([out.get(k, {}), v])
            else:
                out[k] = v
    return out


class Stopwatch:
    def __init__(self):
        self.t0 = time.time()

    def __call__(self) -> float:
        return round(time.time() - self.t0, 2)


def finish(ctx: Ctx, res: Result, wall: float) -> int:
    """Write evidence + replays, print the interface lines, return exit code."""
    known = {(k["property"], k["key"]): k for k in load_known() if k.get("status") == "known"}
    os.makedirs(os.path.join(VERIF_DIR, "evidence"), exist_ok=True)
    rdir = os.path.join(VERIF_DIR, "replays", ctx.prop)
    new, kn = [], {}
    for v in res.violations:
        if (ctx.prop, v.key) in known:
            kn.setdefault(v.key, []).append(v)
        else:
            new.append(v)
    for key, vs in sorted(kn.items()):
        print(f"KNOWN-FINDING: property={ctx.prop} {known[(ctx.prop, key)]['what']} [key={key}; {len(vs)} instance(s) this run]")
    printed = set()
    new.sort(key=lambda v: (len(json.dumps(v.replay, default=repr)), v.key))
    for v in new[:60]:
        os.makedirs(rdir, exist_ok=True)
        path = os.path.join(rdir, f"{sha([v.key, v.replay])}.json")
        with open(path, "w") as f:
            json.dump({"property": ctx.prop, **v.to_json()}, f, indent=1, default=repr)
        if v.key not in printed and len(printed) < 40:
            print(f"VIOLATION property={ctx.prop} replay={path}")
            print(f"  key={v.key}\n  {v.what}")
        printed.add(v.key)
    if len(new) > 1:
        print(f"... {len(new)} violations in total ({len(set(v.key for v in new))} distinct keys)")
    cov = dict(res.coverage)
    for k, v in list(cov.items()):
        if isinstance(v, set):
            cov[k] = sorted(v)
    ev = {
        "property_id": ctx.prop,
        "tier": ctx.tier,
        "seed": ctx.seed,
        "level": res.level,
        "coverage": cov,
        "assumptions": res.assumptions,
        "wall_s": wall,
        "violations": len(new),
        "known_findings_seen": sorted(kn),
        "notes": res.notes,
        "repo": REPO,
    }
    with open(os.path.join(VERIF_DIR, "evidence", f"{ctx.prop}.json"), "w") as f:
        json.dump(ev, f, indent=1, default=repr)
    brief = {k: v for k, v in cov.items() if isinstance(v, (int, float, bool, str)) and k != "rule"}
    print(f"[{ctx.prop} {ctx.tier}] wall={wall}s violations={len(new)} known={len(kn)} coverage={brief}")
    return 1 if new else 0
