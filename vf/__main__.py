"""CLI:  python -m vf check C01 --tier quick|thorough
         python -m vf replay C01 replays/C01/<sha>.json
Exit 0: property held on everything explored; 1: VIOLATION printed; 2: harness error.
"""
import argparse
import importlib
import json
import os
import sys
import traceback
import warnings


def main(argv=None):
    ap = argparse.ArgumentParser(prog="vf")
    sub = ap.add_subparsers(dest="cmd", required=True)
    c = sub.add_parser("check")
    c.add_argument("prop")
    c.add_argument("--tier", default=os.environ.get("VERIF_TIER", "quick"), choices=["quick", "thorough"])
    r = sub.add_parser("replay")
    r.add_argument("prop")
    r.add_argument("path")
    a = ap.parse_args(argv)
    warnings.simplefilter("ignore")
    os.environ.setdefault("JAX_PLATFORMS", "cpu")
    os.environ.setdefault("TF_CPP_MIN_LOG_LEVEL", "3")
    from . import common

    try:
        common.bind_repo()
        mod = importlib.import_module(f"vf.checks.{a.prop.lower()}")
        if a.cmd == "check":
            seed = int(os.environ.get("VERIF_SEED", "0"))
            ctx = common.Ctx(a.prop, a.tier, seed)
            sw = common.Stopwatch()
            res = mod.run(ctx)
            return common.finish(ctx, res, sw())
        else:
            with open(a.path) as f:
                rep = json.load(f)
            out = mod.replay(rep["replay"])
            print(json.dumps(out, indent=1, default=repr))
            return 1 if out.get("violates") else 0
    except common.HarnessError as e:
        print(f"HARNESS-ERROR: {e}", file=sys.stderr)
        return 2
    except Exception:
        traceback.print_exc()
        print("HARNESS-ERROR: unexpected exception in the machinery", file=sys.stderr)
        return 2


if __name__ == "__main__":
    sys.exit(main())
