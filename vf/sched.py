"""E3: stateless model checker for real threads (CHESS-style, iterative preemption bounding).

Real threading.Thread objects (the state under test is threading.local), serialised by
a per-thread semaphore baton: exactly one thread runs at any time.  Scheduling points
are sys.settrace events in the files selected by `trace_filter(filename)`: 2/True = the call
event and every *line* event (a context switch is possible before every source line),
1 = call events only, 0/False = not traced.  A
schedule is the list of choices made at scheduling points (index into the canonical
enabled list: running thread first, then ascending ids).  Executions always run to
completion.  A replayed prefix that diverges, a deadlock or a watchdog timeout is a
HarnessError, never a property violation.
"""
from __future__ import annotations

import io
import sys
import threading

from .common import HarnessError


class ThreadStdout(io.TextIOBase):
    """Process-wide stdout proxy keyed by thread, so print_bindings() transcripts of
    different threads cannot mix.  Harness code: not a scheduling point."""

    def __init__(self, real):
        self.real = real
        self.local = threading.local()

    def begin(self):
        self.local.buf = io.StringIO()

    def end(self) -> str:
        v = self.local.buf.getvalue()
        self.local.buf = None
        return v

    def write(self, s):
        buf = getattr(self.local, "buf", None)
        if buf is None:
            return self.real.write(s)
        return buf.write(s)

    def flush(self):
        pass


_proxy = None


def stdout_proxy() -> ThreadStdout:
    global _proxy
    if _proxy is None:
        _proxy = ThreadStdout(sys.stdout)
        sys.stdout = _proxy
    return _proxy


class Point:
    __slots__ = ("n", "chosen", "running_enabled", "tid", "where")

    def __init__(self, n, chosen, running_enabled, tid, where):
        self.n = n
        self.chosen = chosen
        self.running_enabled = running_enabled
        self.tid = tid
        self.where = where


class Execution:
    def __init__(self, bodies, prefix, trace_filter, watchdog=60.0, record_where=False, point_guard=None):
        self.bodies = bodies
        self.guard = point_guard  # () -> bool: False = this event is NOT a scheduling point (e.g. a real lock is held)
        self.prefix = list(prefix)
        self.filter = trace_filter
        self.watchdog = watchdog
        self.points = []
        self.results = [None] * len(bodies)
        self.errors = [None] * len(bodies)
        self.sems = [threading.Semaphore(0) for _ in bodies]
        self.alive = set(range(len(bodies)))
        self.done = threading.Event()
        self.current = None
        self.harness_error = None
        self.record_where = record_where

    # -- choice bookkeeping ----------------------------------------------------
    def _choose(self, n, running_enabled, tid, frame=None):
        i = len(self.points)
        if i < len(self.prefix):
            k = self.prefix[i]
            if k >= n:
                self.harness_error = f"replay diverged at point {i}: choice {k} but only {n} enabled"
                k = 0
        else:
            k = 0
        where = None
        if self.record_where and frame is not None:
            where = (frame.f_code.co_filename.rsplit("/", 1)[-1], frame.f_lineno)
        self.points.append(Point(n, k, running_enabled, tid, where))
        return k

    def _point(self, tid, frame):
        if self.current != tid:
            self.harness_error = f"thread {tid} ran while {self.current} held the baton"
        if self.guard is not None and not self.guard():
            return
        others = sorted(t for t in self.alive if t != tid)
        if not others:
            return
        k = self._choose(1 + len(others), True, tid, frame)
        if k != 0:
            target = others[k - 1]
            self.current = target
            self.sems[target].release()
            self.sems[tid].acquire()

    def _finish(self, tid):
        self.alive.discard(tid)
        if self.alive:
            en = sorted(self.alive)
            k = self._choose(len(en), False, tid) if len(en) > 1 else 0
            target = en[k]
            self.current = target
            self.sems[target].release()
        else:
            self.done.set()

    # -- thread body -------------------------------------------------------------
    def _runner(self, tid):
        self.sems[tid].acquire()
        flt = self.filter
        by_code = hasattr(flt, "by_code")  # optional finer filter: level decided per code object
        point = self._point

        def local(frame, event, arg):
            if event == "line":
                point(tid, frame)
            return local

        def glob(frame, event, arg):
            if event == "call":
                lvl = flt.by_code(frame.f_code) if by_code else flt(frame.f_code.co_filename)
                if lvl:
                    point(tid, frame)
                    return local if lvl == 2 or lvl is True else None
            return None

        sys.settrace(glob)
        try:
            self.results[tid] = self.bodies[tid]()
        except BaseException as e:  # noqa: BLE001
            self.errors[tid] = e
            self.results[tid] = ("BODY-RAISED", type(e).__name__, str(e)[:200])
        finally:
            sys.settrace(None)
            self._finish(tid)

    def run(self):
        ths = [threading.Thread(target=self._runner, args=(i,), daemon=True) for i in range(len(self.bodies))]
        for t in ths:
            t.start()
        en = sorted(self.alive)
        k = self._choose(len(en), False, -1) if len(en) > 1 else 0
        self.current = en[k]
        self.sems[en[k]].release()
        if not self.done.wait(self.watchdog):
            raise HarnessError(f"watchdog: execution did not finish (deadlock?) prefix={self.prefix}")
        for t in ths:
            t.join(5)
        if self.harness_error:
            raise HarnessError(self.harness_error)
        return self

    @property
    def choices(self):
        return [p.chosen for p in self.points]

    def preemptions_before(self, i):
        return sum(1 for p in self.points[:i] if p.running_enabled and p.chosen != 0)


def explore(bodies_factory, trace_filter, bound, check, prefix=(), stats=None, limit=None, point_guard=None, record_where=False):
    """Depth-first exploration of every schedule extending `prefix` with at most `bound`
    preemptions.  bodies_factory() -> fresh list of thread bodies for one execution.
    check(execution) is called for every complete execution; it returns a violation
    object or None (collected in stats['violations'])."""
    stats = stats if stats is not None else {}
    stats.setdefault("executions", 0)
    stats.setdefault("points_max", 0)
    stats.setdefault("violations", [])
    stats.setdefault("outcomes", set())
    stack = [list(prefix)]
    while stack:
        pre = stack.pop()
        x = Execution(bodies_factory(), pre, trace_filter, point_guard=point_guard, record_where=record_where).run()
        stats["executions"] += 1
        stats["points_max"] = max(stats["points_max"], len(x.points))
        v = check(x)
        if v is not None:
            stats["violations"].append((x.choices, v))
        if limit is not None and stats["executions"] >= limit:
            stats["capped"] = True
            break
        ch = x.choices
        for i in range(len(pre), len(x.points)):
            p = x.points[i]
            cost = x.preemptions_before(i) + (1 if p.running_enabled else 0)
            if cost > bound:
                continue
            for alt in range(1, p.n):
                stack.append(ch[:i] + [alt])
    return stats


def children(bodies_factory, trace_filter, bound, prefix=(), point_guard=None):
    """Run `prefix` once and return (execution, list of child prefixes within the bound)."""
    x = Execution(bodies_factory(), list(prefix), trace_filter, point_guard=point_guard).run()
    ch = x.choices
    out = []
    for i in range(len(prefix), len(x.points)):
        p = x.points[i]
        cost = x.preemptions_before(i) + (1 if p.running_enabled else 0)
        if cost > bound:
            continue
        for alt in range(1, p.n):
            out.append(ch[:i] + [alt])
    return x, out
