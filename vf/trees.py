"""Exhaustive generators of tree value-specs (see vf/specs.py) up to a depth."""
from __future__ import annotations

import itertools


def level(children, kinds, max_arity=2, empties=True):
    """All containers of the given kinds with 1..max_arity children from `children`."""
    out = []
    if empties:
        if "tuple" in kinds:
            out.append(["tuple", []])
        if "list" in kinds:
            out.append(["list", []])
        if "dict" in kinds:
            out.append(["dict", {}])
    for ar in range(1, max_arity + 1):
        for ch in itertools.product(children, repeat=ar):
            ch = list(ch)
            if "tuple" in kinds:
                out.append(["tuple", ch])
            if "list" in kinds:
                out.append(["list", ch])
            if "dict" in kinds:
                # insertion order deliberately reversed w.r.t. sorted key order
                out.append(["dict", dict(zip(["b", "a"][:ar], ch))])
            if "nt" in kinds:
                out.append(["nt", ch])
            if "node" in kinds:
                out.append(["node", ch])
    return out


def trees(leaves, depth, kinds_by_level, max_arity=2, with_none=True):
    """All trees of depth <= `depth`.  kinds_by_level[d] = container kinds allowed for a
    node whose subtrees have depth <= d (index 0 = containers directly over leaves)."""
    cur = list(leaves) + ([["none"]] if with_none else [])
    allt = list(cur)
    for d in range(depth):
        kinds = kinds_by_level[min(d, len(kinds_by_level) - 1)]
        new = level(allt if d == 0 else allt, kinds, max_arity, empties=(d == 0))
        # keep only trees not seen (containers are new by construction at d == 0; at
        # deeper levels `level` regenerates shallower ones, drop duplicates)
        seen = {repr(t) for t in allt}
        for t in new:
            r = repr(t)
            if r not in seen:
                seen.add(r)
                allt.append(t)
    return allt


def spine(leaves, length, kinds=("tuple", "list", "dict")):
    """Depth-`length` spines: a chain of single-child/two-child containers ending in leaves."""
    out = []
    for lf in leaves:
        for ks in itertools.product(kinds, repeat=length):
            t = lf
            for k in ks:
                if k == "dict":
                    t = ["dict", {"a": t}]
                else:
                    t = [k, [t]]
            out.append(t)
            # a two-child variant with the sibling at the top
            out.append(["tuple", [t, lf]])
    return out
