"""JSON-serialisable specs for annotations and values, and their builders.

Annotation specs (lists/tuples):
  ["arr", dims]  ["arr", dims, cat]  ["arr", dims, cat, cls]   cat e.g. "Float", cls in {"Duck","Duck2","Any","np"}
  ["pytree"] | ["pytree", leafspec] | ["pytree", leafspec, structure]
  ["tuple", [specs]]  ["union", [specs]]  ["opt", spec]  ["int"] ["str"] ["any"] ["none"]
Value specs:
  ["duck", shape] | ["duck", shape, dtype] | ["duck2", shape] | ["np", shape, dtype]
  ["tuple", [vals]] ["list", [vals]] ["dict", {k: val}] ["none"] ["lit", python-literal]
  ["nt", [vals]] ["node", [vals]]
  ["fault", shape, dtype, attr, fail_at, exc]   duck whose `attr` (shape|dtype) raises exc at its fail_at-th access
"""
from __future__ import annotations

import collections
import typing

from . import common

NT = collections.namedtuple("NT", ["p", "q"])
NT1 = collections.namedtuple("NT1", ["p"])


class Node:
    """A user-registered PyTree node class."""

    _vf_pytree_node = True

    def __init__(self, *children):
        self.children = tuple(children)

    def __repr__(self):
        return f"Node{self.children}"


class KeySameRepr:
    """dict key: hashable, sortable, equal by value - and every instance prints alike."""

    def __init__(self, i):
        self.i = i

    def __hash__(self):
        return hash(("vfkey", self.i))

    def __eq__(self, o):
        return type(o) is type(self) and self.i == o.i

    def __lt__(self, o):
        return self.i < o.i

    def __repr__(self):
        return "K"


class KeyIdRepr(KeySameRepr):
    """the same, with the default repr (<... object at 0x...>): equal keys of two trees print differently"""

    __repr__ = object.__repr__


class VerifFault(Exception):
    pass


class VerifBaseFault(BaseException):
    pass


EXC = {"Exception": VerifFault, "BaseException": VerifBaseFault, "KeyboardInterrupt": KeyboardInterrupt}

_registered = False


def register():
    global _registered
    if _registered:
        return
    import jax.tree_util as jtu

    jtu.register_pytree_node(Node, lambda n: (n.children, None), lambda _, ch: Node(*ch))
    _registered = True


class FaultDuck:
    """Duck array whose `shape` or `dtype` attribute raises at its k-th access."""

    def __init__(self, shape, dtype, attr, fail_at, exc, badrepr=False):
        self._badrepr = badrepr
        self._shape = tuple(shape)
        self._dtype = dtype
        self._attr = attr
        self._fail_at = fail_at
        self._exc = EXC[exc]
        self.count = 0

    def _hit(self, attr):
        if attr == self._attr:
            self.count += 1
            if self.count == self._fail_at:
                raise self._exc(f"injected fault at access {self.count} of {attr}")

    def __repr__(self):
        if self._badrepr:
            raise RuntimeError("repr of a released buffer")
        return f"FaultDuck({self._shape})"

    @property
    def shape(self):
        self._hit("shape")
        return self._shape

    @property
    def dtype(self):
        self._hit("dtype")
        return self._dtype


def build_val(s):
    from .adapter import Duck, Duck2

    k = s[0]
    if k == "duck":
        return Duck(tuple(s[1]), s[2] if len(s) > 2 else "float32")
    if k == "duck2":
        return Duck2(tuple(s[1]), s[2] if len(s) > 2 else "float32")
    if k == "np":
        import numpy as np

        return np.zeros(tuple(s[1]), dtype=s[2] if len(s) > 2 else "float32")
    if k == "tuple":
        return tuple(build_val(x) for x in s[1])
    if k == "list":
        return [build_val(x) for x in s[1]]
    if k == "dict":
        return {kk: build_val(v) for kk, v in s[1].items()}
    if k == "objdict":  # ["objdict", [vals], "samerepr" | "idrepr"]: dict keyed by user objects
        K = KeySameRepr if s[2] == "samerepr" else KeyIdRepr
        return {K(i): build_val(v) for i, v in enumerate(s[1])}
    if k == "none":
        return None
    if k == "lit":
        return s[1]
    if k == "nt":
        vals = [build_val(x) for x in s[1]]
        return NT(*vals) if len(vals) == 2 else NT1(*vals)
    if k == "node":
        register()
        return Node(*[build_val(x) for x in s[1]])
    if k == "fault":
        return FaultDuck(*s[1:])
    raise ValueError(s)


def build_ann(s):
    common.bind_repo()
    import jaxtyping
    from .adapter import Duck, Duck2

    k = s[0]
    if k == "arr":
        cat = getattr(jaxtyping, s[2] if len(s) > 2 else "Float")
        cls = s[3] if len(s) > 3 else "Duck"
        if cls == "np":
            import numpy as np

            c = np.ndarray
        else:
            c = {"Duck": Duck, "Duck2": Duck2, "Any": typing.Any, "Fault": FaultDuck}[cls]
        return cat[c, s[1]]
    if k == "narr":
        # ["narr", outer dims, inner dims, outer category = Float, inner category = Float]
        oc = getattr(jaxtyping, s[3] if len(s) > 3 else "Float")
        ic = getattr(jaxtyping, s[4] if len(s) > 4 else "Float")
        return oc[ic[Duck, s[2]], s[1]]
    if k == "pytree":
        from jaxtyping import PyTree

        if len(s) == 1:
            return PyTree
        if len(s) == 2 or s[2] is None:
            return PyTree[build_ann(s[1])]
        return PyTree[build_ann(s[1]), s[2]]
    if k == "tuple":
        return tuple[tuple(build_ann(x) for x in s[1])]
    if k == "union":
        parts = [build_ann(x) for x in s[1]]
        if len(s) > 2 and s[2] == "|":  # PEP 604 spelling: a types.UnionType, not a typing.Union
            u = parts[0]
            for x in parts[1:]:
                u = u | x
            return u
        return typing.Union[tuple(parts)]
    if k == "opt":
        if len(s) > 2 and s[2] == "|":
            return build_ann(s[1]) | None
        return typing.Optional[build_ann(s[1])]
    if k == "nonelit":  # the leaf type spelt literally `None` (means NoneType)
        return None
    if k == "fwd":  # a forward reference: the NAME of a builtin type as a string ("int", "str")
        return s[1]
    if k == "int":
        return int
    if k == "str":
        return str
    if k == "any":
        return typing.Any
    if k == "none":
        return type(None)
    raise ValueError(s)


def tup(x):
    """Deep list->tuple for hashing specs."""
    if isinstance(x, (list, tuple)):
        return tuple(tup(i) for i in x)
    if isinstance(x, dict):
        return tuple(sorted((k, tup(v)) for k, v in x.items()))
    return x
