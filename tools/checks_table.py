NOT_BUILT = {}
NOTES = ("All checks are hand-written bounded-exhaustive explorers of the real implementation (no explorer for Python exists in the image); "
         "see DESIGN.md. Known genuine defects are listed in known_findings.json.")
ENGINES = [
    dict(name="E1 ctxmachine", path="vf/checks/c01.py, vf/adapter.py", serves_properties=["C01"], kind_free_text="explicit-state BFS over the checking context on the real implementation, reference step function"),
]
add("C01", "E1 ctxmachine", "model_checking",
    "explicit-state model checking of the implementation against a reference step function",
    "Every context state reachable within the alphabet is found by BFS on the real implementation; from every state the complete dim-string x shape alphabet is fired and verdict, AnnotationError and successor state are compared with a reference interpreter of the documented dim language. Exhaustive within the stated token/shape bounds.",
    "Trusts vf/refs/shapes.step as the reading of docs/api/array.md; don't-care zones (mismatch + unevaluable symbolic axis; '#expr' of size 1) accept either documented outcome; sizes > 3 and more than 2 named axes are outside the bound.",
    "DESIGN.md §6 C01")
