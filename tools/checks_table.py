NOT_BUILT = {}
NOTES = ("All checks are hand-written bounded-exhaustive explorers of the real implementation (no explorer for Python exists in the image); "
         "see DESIGN.md. Known genuine defects are listed in known_findings.json.")
ENGINES = [
    dict(name="E1 ctxmachine", path="vf/checks/c01.py, vf/adapter.py", serves_properties=["C01"], kind_free_text="explicit-state BFS over the checking context on the real implementation, reference step function"),
]
add("C01", "E1 ctxmachine", "model_checking",
    "explicit-state model checking of the implementation against a reference step function",
    "Every context state reachable within the alphabet is found by BFS on the real implementation; from every state the complete dim-string x shape alphabet is fired and verdict, AnnotationError and successor state are compared with a reference interpreter of the documented dim language. Exhaustive within the stated token/shape bounds.",
    "Trusts vf/refs/shapes.step as the reading of docs/api/array.md; don't-care zones (mismatch + unevaluable symbolic axis; '#expr' of size 1) accept either documented outcome; sizes > 3 and more than 2 named axes are outside the bound.",
    "DESIGN.md §6 C01")

ENGINES[0]["serves_properties"].append("C04")
add("C04", "E1 ctxmachine", "model_checking",
    "explicit-state exploration of the checking context with single-fault enumeration; invariant checked on every transition",
    "From each of a set of context states reached by real checks, every (annotation, value) of an alphabet built so that the mismatch or exception is only discoverable after k axes / k leaves matched is executed on the implementation; after every rejected or raising check the context must be identical (internal memo, print_bindings text and a non-binding public probe battery) and after every passing check an immediate repeat must pass and change nothing. One injected fault (Exception and BaseException) at every access of shape/dtype.",
    "Faults are injected only through harness-owned array objects (shape/dtype properties); the same invariant is additionally evaluated on every C01 transition.",
    "DESIGN.md §6 C04")
