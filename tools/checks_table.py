NOT_BUILT = {}
NOTES = ("All checks are hand-written bounded-exhaustive explorers of the real implementation (no explorer for Python exists in the image); "
         "see DESIGN.md. Known genuine defects are listed in known_findings.json.")
ENGINES = [
    dict(name="E1 ctxmachine", path="vf/checks/c01.py, vf/adapter.py", serves_properties=["C01"], kind_free_text="explicit-state BFS over the checking context on the real implementation, reference step function"),
]
add("C01", "E1 ctxmachine", "model_checking",
    "explicit-state model checking of the implementation against a reference step function",
    "Every context state reachable within the alphabet is found by BFS on the real implementation; from every state the complete dim-string x shape alphabet is fired and verdict, AnnotationError and successor state are compared with a reference interpreter of the documented dim language. Exhaustive within the stated token/shape bounds.",
    "Trusts vf/refs/shapes.step as the reading of docs/api/array.md; don't-care zones (mismatch + unevaluable symbolic axis; '#expr' of size 1) accept either documented outcome; sizes > 3 and more than 2 named axes are outside the bound.",
    "DESIGN.md §6 C01")

ENGINES[0]["serves_properties"].append("C04")
add("C04", "E1 ctxmachine", "model_checking",
    "explicit-state exploration of the checking context with single-fault enumeration; invariant checked on every transition",
    "From each of a set of context states reached by real checks, every (annotation, value) of an alphabet built so that the mismatch or exception is only discoverable after k axes / k leaves matched is executed on the implementation; after every rejected or raising check the context must be identical (internal memo, print_bindings text and a non-binding public probe battery) and after every passing check an immediate repeat must pass and change nothing. One injected fault (Exception and BaseException) at every access of shape/dtype.",
    "Faults are injected only through harness-owned array objects (shape/dtype properties); the same invariant is additionally evaluated on every C01 transition.",
    "DESIGN.md §6 C04")

ENGINES[0]["serves_properties"] += ["C08", "C09"]
ENGINES[0]["path"] = "vf/checks/c01.py c04.py c08.py c09.py c16.py, vf/adapter.py, vf/specs.py, vf/trees.py"
add("C08", "E1 ctxmachine", "model_checking",
    "explicit-state exploration: exhaustive tree x leaf-type x context enumeration against a reference flattener, plus differential PyTree[L] vs PyTree[PyTree[L]]",
    "Every tree of the bounded family (depth<=2, arity<=2, all container kinds incl. None, empties, namedtuple, registered node; depth-3/4 spines) is checked on the implementation against PyTree[L] and PyTree[PyTree[L]] for 10 leaf types from 3 prior context states; verdict and successor context are compared with an independent top-down flattener/matcher and the two annotations with each other; rejected trees must leave the context unchanged.",
    "Trusts vf/refs/pytrees.py + leaftypes.py (independent of jax.tree_util); leaf types whose type-only and full matching would disagree on what a leaf is are not generated (statement silent).",
    "DESIGN.md §6 C08")
add("C09", "E1 ctxmachine", "model_checking",
    "explicit-state exploration of structure bindings against a reference structure algebra; exhaustive structure-string enumeration",
    "For every structure T (and pairs S,T) of depth<=1 bound by a real first check, every candidate tree of depth<=2 (thorough: all 27k; quick: strided plus everything derived from T by composition/mutation) is checked against all forms T, 'T ...', '... T', 'S T', 'T S', 'T T', 'S T ...', '... S T'; verdicts must equal the reference algebra (equality, composition, prefix, suffix = exists O. O∘T = X), unbound names in composites must raise AnnotationError, nothing may change the context; every structure string of <=3 pieces must build or raise ValueError exactly as the grammar says.",
    "Don't-care: '...' alone or at both ends, non-string structures, a name first used on a top-level None (accepted without binding, per C08).",
    "DESIGN.md §6 C09")

ENGINES[0]["serves_properties"] += ["C16"]
add("C16", "E1 ctxmachine", "model_checking",
    "explicit-state exploration of check sequences in one context against a reference keyed by (structure name, leaf index, axis name)",
    "Every sequence of 2-3 trees over 4 skeletons (1-3 leaf positions) with every assignment of sizes {2,3} to every array position is checked in one real context against PyTree[L,'T'], PyTree[L] and bare L for 8 leaf types containing '?n' / '*?v' (alone, in unions, tuples, structure-less and structured inner PyTrees), with a plain axis n bound at every point of the sequence; every verdict incl. AnnotationError is compared with the reference.",
    "For leaf types that are themselves PyTrees the statements do not settle which subtree counts as a leaf: there only 'never AnnotationError beneath exactly one structured PyTree' / 'AnnotationError beneath none or two' is asserted, except on single-leaf trees where the reference is sharp.",
    "DESIGN.md §6 C16")

ENGINES.append(dict(name="E5 space", path="vf/checks/c03.py c14.py c15.py c20.py c10.py", serves_properties=["C03"], kind_free_text="complete enumeration of finite input products on the real isinstance / annotation constructors against reference tables or differentially"))
add("C03", "E5 space", "exploration",
    "complete product enumeration (dtype x carrier x category) on the real isinstance against a three-valued documented-hierarchy table over canonical dtype identities, plus cross-backend consistency",
    "Every dtype NumPy, ml_dtypes, JAX (incl. tracers and PRNG keys) and TensorFlow can produce on this platform is crossed with all 34 exported categories and 35 generated user/struct categories on every carrier (np.ndarray, jax.Array, tracer, tf.Tensor, string / torch-style / as_numpy_dtype ducks); the space is finite and enumerated completely, nothing sampled or capped.",
    "Trusted: NumPy/JAX/ml_dtypes/TF introspection for canonical identities and vf/refs/dtypes.py (synchronised with docs/api/array.md at start-up). Undocumented precisions (longdouble, float8_e3m4, ...) are don't-care on the value but must be consistent across carriers; 'matches' is read as Pattern.match; platform-specific alias set (x86-64 Linux).",
    "DESIGN.md §6 C03")

ENGINES.append(dict(name="E2 callspace", path="vf/checks/c02.py c13.py c07.py c17.py c19.py", serves_properties=["C02", "C13"], kind_free_text="bounded-exhaustive enumeration of decorated programs (signatures x decorator spellings x typecheckers x call styles) x inputs, against order-free oracles"))
add("C02", "E2 callspace", "exploration",
    "bounded-exhaustive program x input enumeration against a brute-force satisfiability oracle (order-free), closed under permutation",
    "Every legal signature of k<=3 (families up to k=5) array-annotated parameters (+ return annotation) from 12 dim strings + 3 symbolic ones is decorated for real (new-style def, dataclass __init__, old-style double decorator; typeguard and beartype) and called with every tuple of argument/return shapes from 9 shapes in every call style; acceptance must equal EXISTS-sigma satisfiability decided by brute force. The product is closed under permutation of parameters, so any dependence on declaration order, call style or typechecker shows up as a disagreement with the order-free oracle.",
    "Oracle vf/refs/shapes.satisfiable enumerates candidate sizes (sizes that occur, 1) and candidate *shapes (all contiguous slices and their joint broadcasts); symbolic axes only after parameters that definitely bind their names (otherwise AnnotationError is legitimate).",
    "DESIGN.md §6 C02")
add("C13", "E2 callspace", "exploration",
    "bounded-exhaustive enumeration of ill-typed calls; parsed error messages compared with reference bind-or-compare bindings and minimal-unsatisfiable-subset blame",
    "Every ill-typed call of the C02 generator (k<=3) and of an extended family (Union whose first alternative fails, tuple, PyTree[..,'T'], 'c a', '*v a') is made with both typecheckers and both values of the remove-typechecker-stack switch; the TypeCheckError text is parsed: stage sentence = parameters iff the parameter constraints alone are unsatisfiable, function name, blamed parameter in a minimal unsatisfiable subset, listed axis/structure bindings = exactly those of the parameters accepted before the failure, __cause__ presence vs switch; misuse ('?' outside PyTree, unbound symbolic, unbound composite) at every position must surface as AnnotationError.",
    "Assumes both typecheckers walk parameters in signature order (true for typeguard 2.13.3 and beartype 0.22.9; otherwise the check reports disagreement as a violation to triage). Don't-care: bindings made by components of a failing tuple[...] hint (owned by the typechecker, no rollback); union values matching several alternatives.",
    "DESIGN.md §6 C13")

ENGINES[1]["serves_properties"] += ["C14", "C15"]
add("C14", "E5 space", "exploration",
    "bounded-exhaustive dim-spec grammar product, judged against a reference parser and differentially against normal forms",
    "Every spec of the stated token/sequence/whitespace grammar (<=4 modifier characters in every order, doc= prefix at every position, 11 bases, sequences, whitespace patterns) plus non-strings is built on the real code; the outcome class is compared with the documented legal / illegal / don't-care reading (totality: annotation or ValueError, nothing else); every legal spelling's acceptance vector over 63 shapes x 3 contexts (+ what it binds, + PyTree leaf pairs for '?') equals that of its normal form, whose vector lies in the reference-allowed set.",
    "Trusts vf/refs/dims.py (+ dims_ext.py) and vf/refs/shapes.step as the reading of docs/api/array.md; don't-care: empty base without '_', '?_', several '=', bases the docs list as neither legal nor illegal ('-1', '1.5').",
    "DESIGN.md §6 C14")
add("C15", "E5 space", "exploration",
    "bounded-exhaustive algebraic-law instances: both sides built on the real constructors and compared by acceptance vectors",
    "All category pairs x dim-string pairs x {Duck, ndarray, Any} for the nesting law against a fresh user category whose dtype list is computed from the documented hierarchy (not jaxtyping's tables), 3-level nesting, unions in both spellings, TypeVars (bound / constraints / bare), the scalar ladder, and Scalar/ScalarLike/PRNGKeyArray against their documented definitions; ValueError exactly where the law says so; vectors under 3 prior contexts.",
    "Trusts vf/refs/dtypes_c15.py (universe = dtypes the docs name) and the member-by-member reading of Union; Python scalars in precision-specific categories and np.number outside Shaped/Num are don't-care.",
    "DESIGN.md §6 C15")

ENGINES.append(dict(name="E4 histories", path="vf/checks/c05.py c12.py c11.py c18.py, vf/worlds.py", serves_properties=["C05"], kind_free_text="exhaustive operation-sequence / program enumeration with fault injection against a reference interpreter; BFS over worlds (import forest, bytecode cache)"))
add("C05", "E4 histories", "model_checking",
    "exhaustive enumeration of nested call/context programs executed on the real decorators and on a stack-of-dicts reference interpreter, compared after every statement",
    "Every program of nesting depth 2 over {new-style typeguard/beartype, old-style double decorator, typechecker=None, dataclass __init__, method, classmethod, generator function, coroutine function, recursion, context block} x exits {return, Exception, BaseException, KeyboardInterrupt, SystemExit, GeneratorExit, ill-typed arguments, ill-typed return, non-binding call} with colliding axis names and manual checks before/inside/after is executed on the real API (bodies call back into the interpreter, so pushes and pops are the real ones); after every statement print_bindings() must equal the reference's top frame and the real stack depth the reference depth; {arg}-symbolic checks observe the argument memo; at the end the stack is empty and flags clear.",
    "Reference interpreter RefInterp (in vf/checks/c05.py); generator/coroutine bodies are driven immediately after the call in the caller's context; quick uses a reduced kind/exit grammar at the same depth.",
    "DESIGN.md §6 C05")

ENGINES.append(dict(name="E3 sched", path="vf/sched.py, vf/checks/c06.py", serves_properties=["C06"], kind_free_text="stateless model checker for real threads: sys.settrace scheduling points + semaphore baton, iterative preemption bounding, replayable schedules"))
add("C06", "E3 sched", "model_checking",
    "stateless model checking of real threads under a controlled scheduler (CHESS-style preemption bounding), transcripts compared with solo runs",
    "Real threading.Thread workloads (context blocks, bare checks, decorated and nested decorated calls, PyTree checks with '?' axes, failing checks that trigger rollback, wrong-dtype probes that a leaked flatten flag would accept; 2-3 threads) are serialised by a semaphore baton; a context switch is possible before every source line of jaxtyping; every schedule with <= 1 preemption (quick) / <= 2 preemptions for the 2-thread workloads (thorough) is executed to completion and every thread's transcript of verdicts, exception classes and print_bindings() texts must equal the transcript of the same body run alone.",
    "One OS thread runs at a time (asserted at every scheduling point); races inside one source line are not explored (single attribute/dict stores are atomic under the GIL); bound-2 runs of PyTree workloads use scheduling points at every line of _storage.py and at every call event elsewhere.",
    "DESIGN.md §6 C06, §3 E3")

ENGINES[2]["serves_properties"] += ["C19"]
add("C19", "E2 callspace", "exploration",
    "exhaustive operation-history, configuration and environment enumeration on the real code, differential against the undecorated source",
    "Every toggle/decorate/call history of length <=4 (quick) / <=5 (thorough) over 7 operations x 7 callable kinds (def, method, classmethod, staticmethod, property, dataclass __init__, function in a hooked module) x 2 typecheckers x no_type_check placements, every switch value x item-name casing x prior state, and one subprocess per environment value are executed; while off, the decorated behaviour (result / exception identity, body run count, argument identities, no context pushed) is identical to the same source compiled without the jaxtyped line; after re-enabling, ill-typed calls raise again without re-decoration; accepted spellings are exactly {0,1,true,false in any case, bool}.",
    "Reference = the same source without the decorator; interpreter-made TypeErrors compared by type and message; don't-care: non-bool 0/1/1.0 values, non-lower-case item names, no_type_check applied to a classmethod/staticmethod object, old-style double decorator and typechecker=None under disable.",
    "DESIGN.md §6 C19")

ENGINES[3]["serves_properties"] += ["C12"]
add("C12", "E4 histories", "model_checking",
    "exhaustive operation-history enumeration followed by a probe battery (differential against the pristine process) plus single-fault enumeration at every call-out point",
    "Every history of <=2 (quick) / <=3 (thorough) operations over a catalogue of 27 public-API activities (passing/failing/raising array and PyTree checks in and outside contexts, custom nodes, leaf __instancecheck__, nested PyTrees, '?' misuse, decorated calls ok/ill-typed/raising, decoration new/old/old-generator with a shared annotation object, dataclass, pickle/copy, hook install+import+uninstall, config toggle, name format) is executed and followed by a 30-observation probe battery that must equal the pristine battery; every operation is re-executed with an Exception and a BaseException injected at each of its call-out points (shape/dtype/repr, __instancecheck__, flatten, symbolic functions, body, typechecker, module body), each followed by the battery.",
    "Call-outs are harness-owned objects; the battery uses public API plus two internal reads (stack depth, transient flags); after a violation the state is restored by a best-effort reset and verified pristine before continuing.",
    "DESIGN.md §6 C12")

ENGINES[1]["serves_properties"] += ["C10"]
add("C10", "E5 space", "translation_validation",
    "translation validation of the real source transformer: complete corpus walk plus bounded-exhaustive module grammar, plain vs hooked compared at AST, code-object and execution level",
    "For every module of the corpus (stdlib in quick; stdlib + site-packages, ~9.5k files, in thorough) and of a generated grammar (<=4 top-level items x decorator stacks x nesting x both typechecker spellings) the real JaxtypingTransformer / _JaxtypingLoader.source_to_code / IPython magic is run: the hooked tree compiles; stripping exactly the three permitted additions reproduces the untouched ast.dump(include_attributes=True); every added decorator evaluates to the registered jaxtyped(typechecker=...) expression; future flags, docstring, function co_firstlineno and leaf code objects agree bit for bit; executed generated modules produce identical logs, results and traceback line numbers plain vs hooked (identity-spy typechecker).",
    "Trusted: CPython compile() determinism. Don't-care: zero imports in modules without def/class; import position anywhere between the docstring/__future__ block and the first def/class; source locations of the added nodes themselves; first-line shift of classes that already had decorators. Quick caps the length-3/4 generated spaces (stated in coverage.caps).",
    "DESIGN.md §6 C10")

ENGINES[1]["serves_properties"] += ["C20"]
ENGINES[2]["serves_properties"] += ["C17"]
add("C20", "E5 space", "exploration",
    "exhaustive annotation x serialisation-route product with a differential acceptance-vector oracle, run in fresh interpreters",
    "Every annotation of the alphabet (16 categories incl. two importable user categories x array types {ndarray, duck, Any, Union, nested one and two levels with narrowing} x 8 dim strings) goes through pickle protocols 0-5, cloudpickle, copy and deepcopy, same-process and loaded in a fresh interpreter; the 540-probe isinstance vector (2 array classes x 9 dtypes x 10 shapes x 3 contexts) of the reconstructed annotation must equal the original's vector computed before serialising; the original is re-measured after dumps and after loads, and bystander canaries after every case.",
    "No hand-written expectations. Trusts CPython pickle/copy, cloudpickle 3.1.2 and determinism of fresh interpreters (asserted by computing fingerprints twice). Only the exception type of a probe is compared, unions by 'any member accepts'.",
    "DESIGN.md §6 C20")
add("C17", "E2 callspace", "exploration",
    "bounded-exhaustive program x input x transformation products, traced-vs-eager differential",
    "Every decorated function of the grammar (k<=3 jax.Array parameters from the C02 dim strings, return annotations incl. symbolic, PyTree[...,'T'] / '?' parameters; typeguard and beartype) is traced under every catalogue transformation (eval_shape, make_jaxpr, jit, vmap with every valid in_axes, grad, jit∘vmap, vmap∘jit, grad∘jit, vmap∘vmap) and must agree with its own eager call on the per-example shapes and dtypes in verdict, exception class and body-run count; three eager fillings (zeros, arange, NaN) must agree; no Concretization / TracerBoolConversion / TracerArrayConversion error anywhere in the exception chain.",
    "Rank <=3, sizes <=3, float32/int32, CPU, tracing only (nothing compiled). Trusts JAX's tracing semantics; the harness's per-example-shape computation is cross-checked against what the body saw in every trace.",
    "DESIGN.md §6 C17")

ENGINES[2]["serves_properties"] += ["C07"]
ENGINES[3]["serves_properties"] += ["C11", "C18"]
add("C07", "E2 callspace", "exploration",
    "bounded-exhaustive generated programs x call lists on the real jaxtyped, body-side identity recorder, differential against the undecorated callable",
    "Every signature shape with <=3 (quick) / <=4 (thorough) parameters over the five parameter kinds, defaults, annotated/unannotated, every tuple of distinct names from an 11-name alphabet colliding with the wrapper's generated names (T0, default0, ret0, args, kwargs, fn, memos, bound, the function's own name), callable kinds def / lambda / async def / generator, descriptor kinds plain / method / classmethod / staticmethod / property, both typecheckers, is decorated for real and called with every binding recipe (positional / keyword / default / extra *args / **kwargs incl. the wrapper's own output name), five non-binding lists and ill-typed lists; body execution count, argument / result / exception identity, TypeError on non-binding lists, zero executions on ill-typed lists, __name__/__qualname__/__doc__/__module__/signature/descriptor kind are compared with the undecorated callable.",
    "Trusted: the recorder body and source generator (a misbehaving reference raises HarnessError); typeguard 2.13.3 / beartype 0.22.9; names outside the alphabet and arity > 4 are out of bounds; exception type on ill-typed arguments is don't-care (all were TypeCheckError).",
    "DESIGN.md §6 C07")
add("C11", "E4 histories", "model_checking",
    "explicit-state BFS over install / import / uninstall histories on the real import machinery with deduplication on the observed world",
    "Every history within the stated bounds (quick: length <=4, <=2 active hooks, hook name sets over {foo, foo.a, foo.sub, fo, bar.baz}, checkers spy A / spy B / None / old tuple form, via API / with-block / pytest option / IPython magic) is executed on the real sys.meta_path and sys.modules over a generated package forest with string-prefix lookalikes (foobar, foo_bar, fo); states are deduplicated on finder order + each loaded module's observed instrumentation tag; every transition is compared with the statement's oracle (instrumented iff some active hook name equals the module name or is a dotted prefix of it; checker of a covering hook; nothing new after uninstall; already instrumented functions keep their checker), observed through the spy log and through ill-typed calls.",
    "Trusts that an import depends only on meta_path, sys.modules and Typechecker.lookup; undo fidelity is re-checked by rebuilding every expanded state from reset; when two active hooks with different checkers cover a module either checker is accepted.",
    "DESIGN.md §6 C11")
add("C18", "E4 histories", "model_checking",
    "unbounded-depth explicit-state BFS to a fixpoint over the bytecode-cache directory, cross-validated against real separate processes",
    "State = canonical listing of every .pyc (plain or tagged name, which checker hash, built for which source version, header fresh?) plus source versions; operations = run(hooked subset, checker in {no hook, None, spy A, spy B}, import order incl. nested imports) and edit(module); every reachable state x every operation is executed as real imports in a purged interpreter until no new state appears; all edges of depth <=2 and every violating history are re-run as real separate interpreters and must agree on state and observation. Oracle per run: each loaded module is instrumented iff hooked in this run, with this run's checker, from the current source.",
    "State abstraction merges stale-header files and abstracts versions to current/old (CPython validates the header before using cached code); subprocesses write bytecode only around the hooked imports with jax masked so nothing is written under the repo.",
    "DESIGN.md §6 C18")

# ---- additions made after the seeded-change waves (appended to the level texts)
_EXTRA = {
 "C01": " Also: argument objects mutated between two checks of one call ({arg} axes must use the current value); carrier / array-type / dtype slices (np.ndarray, jax, tf, Any, wrong class, dtype outside the category).",
 "C04": " Leaf types include variadic axes, unions whose first alternative binds an axis and then fails, and a structured PyTree inside a structure-less one.",
 "C05": " Prefixes include a failing check followed by a fresh binding before the nested compound; callees include an un-annotated new-style function.",
 "C06": " Workloads W5 (two context blocks open at once at different stack depths, bound 2 also in quick) and W6 (both threads checking outside any context).",
 "C07": " Extra part: sequences of decorations of same-named functions over different but identically printing classes (cross-talk), defaults with non-standard == (equal to everything, raising, ndarray, mock.ANY), identity of exceptions raised by the body incl. the library's own classes at nesting depth 1 and 2.",
 "C08": " Leaf alphabets include equal-valued leaves of different types (1, 1.0, True) and a union of two array annotations whose first alternative binds and fails.",
 "C09": " Also: dict structures differing only in their keys (processed in one worker), and the same container object mutated in place between two checks of one context.",
 "C12": " 30 operations incl. a hooked import of a module that does not compile, and a generator / a coroutine left suspended while later activity happens.",
 "C15": " The scalar law also ranges over user-defined categories holding regex patterns (alone, mixed with names, matching everything) and plain name lists.",
 "C16": " Every sequence with equal sizes is also run with the SAME array object at several leaf positions; leaf types include tuple[PyTree[Q], Q].",
 "C17": " Extra families: keyword-only parameters with asymmetric warm-up (one call in one mode, then all modes), parameter names colliding with axis names, isinstance checks made by the body on temporaries, Python scalars / weakly typed values.",
 "C18": " Concurrent part (engine E3, vf/checks/c18_threads.py): a run whose two threads import two independent modules at the same time is explored under every schedule with <= 2 preemptions (call granularity in the hook's code, importlib._bootstrap_external and unittest.mock; thorough also <= 3 for two hooks and <= 1 at source-line granularity), six hook configurations; after every schedule the modules of the run itself, a re-import in the same process after uninstall and three later runs (checker A / B / no hook) over the directory left behind must execute exactly their own configuration's instrumentation. Operations of the sequential part also include a run that imports from deep inside the call stack (the hook's recursive transformation overflows) and a run with a second hook that is uninstalled twice. Operations include runs made with checking disabled, source roll-backs to an OLDER mtime (the state distinguishes stale-older from stale-newer files) and a hooked module that does not compile; a divergence between in-process and separate-process execution is reported as a process-state leak.",
 "C19": " Extra parts: jaxtyped(typechecker=None), the switch set in one thread and the call made in another, the switch flipped while a decorated call or a context block is on the stack.",
 "C20": " Loaded copies are re-measured after all later loads of the batch and after a SECOND pickle generation; originals are re-measured after the whole cloudpickle batch.",
 "C11": " Oracle violations that do not reproduce from a reset world are reported as a process-state leak (with a [polluter ; reset ; history] witness when one is found).",
 "C13": " Misuse family includes {name} f-string forms; the message parser is tolerant of rewording.",
 "C03": " User categories include ones derived from built-in categories (checked after their base).",
}
for _k, _v in _EXTRA.items():
    CHECKS[_k]["text"] += _v
