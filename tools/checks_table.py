NOT_BUILT = {}
NOTES = ("All checks are hand-written bounded-exhaustive explorers of the real implementation (no explorer for Python exists in the image); "
         "see DESIGN.md. Known genuine defects are listed in known_findings.json.")
ENGINES = [
    dict(name="E1 ctxmachine", path="vf/checks/c01.py, vf/adapter.py", serves_properties=["C01"], kind_free_text="explicit-state BFS over the checking context on the real implementation, reference step function"),
]
add("C01", "E1 ctxmachine", "model_checking",
    "explicit-state model checking of the implementation against a reference step function",
    "Every context state reachable within the alphabet is found by BFS on the real implementation; from every state the complete dim-string x shape alphabet is fired and verdict, AnnotationError and successor state are compared with a reference interpreter of the documented dim language. Exhaustive within the stated token/shape bounds.",
    "Trusts vf/refs/shapes.step as the reading of docs/api/array.md; don't-care zones (mismatch + unevaluable symbolic axis; '#expr' of size 1) accept either documented outcome; sizes > 3 and more than 2 named axes are outside the bound.",
    "DESIGN.md §6 C01")

ENGINES[0]["serves_properties"].append("C04")
add("C04", "E1 ctxmachine", "model_checking",
    "explicit-state exploration of the checking context with single-fault enumeration; invariant checked on every transition",
    "From each of a set of context states reached by real checks, every (annotation, value) of an alphabet built so that the mismatch or exception is only discoverable after k axes / k leaves matched is executed on the implementation; after every rejected or raising check the context must be identical (internal memo, print_bindings text and a non-binding public probe battery) and after every passing check an immediate repeat must pass and change nothing. One injected fault (Exception and BaseException) at every access of shape/dtype.",
    "Faults are injected only through harness-owned array objects (shape/dtype properties); the same invariant is additionally evaluated on every C01 transition.",
    "DESIGN.md §6 C04")

ENGINES[0]["serves_properties"] += ["C08", "C09"]
ENGINES[0]["path"] = "vf/checks/c01.py c04.py c08.py c09.py c16.py, vf/adapter.py, vf/specs.py, vf/trees.py"
add("C08", "E1 ctxmachine", "model_checking",
    "explicit-state exploration: exhaustive tree x leaf-type x context enumeration against a reference flattener, plus differential PyTree[L] vs PyTree[PyTree[L]]",
    "Every tree of the bounded family (depth<=2, arity<=2, all container kinds incl. None, empties, namedtuple, registered node; depth-3/4 spines) is checked on the implementation against PyTree[L] and PyTree[PyTree[L]] for 10 leaf types from 3 prior context states; verdict and successor context are compared with an independent top-down flattener/matcher and the two annotations with each other; rejected trees must leave the context unchanged.",
    "Trusts vf/refs/pytrees.py + leaftypes.py (independent of jax.tree_util); leaf types whose type-only and full matching would disagree on what a leaf is are not generated (statement silent).",
    "DESIGN.md §6 C08")
add("C09", "E1 ctxmachine", "model_checking",
    "explicit-state exploration of structure bindings against a reference structure algebra; exhaustive structure-string enumeration",
    "For every structure T (and pairs S,T) of depth<=1 bound by a real first check, every candidate tree of depth<=2 (thorough: all 27k; quick: strided plus everything derived from T by composition/mutation) is checked against all forms T, 'T ...', '... T', 'S T', 'T S', 'T T', 'S T ...', '... S T'; verdicts must equal the reference algebra (equality, composition, prefix, suffix = exists O. O∘T = X), unbound names in composites must raise AnnotationError, nothing may change the context; every structure string of <=3 pieces must build or raise ValueError exactly as the grammar says.",
    "Don't-care: '...' alone or at both ends, non-string structures, a name first used on a top-level None (accepted without binding, per C08).",
    "DESIGN.md §6 C09")

ENGINES[0]["serves_properties"] += ["C16"]
add("C16", "E1 ctxmachine", "model_checking",
    "explicit-state exploration of check sequences in one context against a reference keyed by (structure name, leaf index, axis name)",
    "Every sequence of 2-3 trees over 4 skeletons (1-3 leaf positions) with every assignment of sizes {2,3} to every array position is checked in one real context against PyTree[L,'T'], PyTree[L] and bare L for 8 leaf types containing '?n' / '*?v' (alone, in unions, tuples, structure-less and structured inner PyTrees), with a plain axis n bound at every point of the sequence; every verdict incl. AnnotationError is compared with the reference.",
    "For leaf types that are themselves PyTrees the statements do not settle which subtree counts as a leaf: there only 'never AnnotationError beneath exactly one structured PyTree' / 'AnnotationError beneath none or two' is asserted, except on single-leaf trees where the reference is sharp.",
    "DESIGN.md §6 C16")

ENGINES.append(dict(name="E5 space", path="vf/checks/c03.py c14.py c15.py c20.py c10.py", serves_properties=["C03"], kind_free_text="complete enumeration of finite input products on the real isinstance / annotation constructors against reference tables or differentially"))
add("C03", "E5 space", "exploration",
    "complete product enumeration (dtype x carrier x category) on the real isinstance against a three-valued documented-hierarchy table over canonical dtype identities, plus cross-backend consistency",
    "Every dtype NumPy, ml_dtypes, JAX (incl. tracers and PRNG keys) and TensorFlow can produce on this platform is crossed with all 34 exported categories and 35 generated user/struct categories on every carrier (np.ndarray, jax.Array, tracer, tf.Tensor, string / torch-style / as_numpy_dtype ducks); the space is finite and enumerated completely, nothing sampled or capped.",
    "Trusted: NumPy/JAX/ml_dtypes/TF introspection for canonical identities and vf/refs/dtypes.py (synchronised with docs/api/array.md at start-up). Undocumented precisions (longdouble, float8_e3m4, ...) are don't-care on the value but must be consistent across carriers; 'matches' is read as Pattern.match; platform-specific alias set (x86-64 Linux).",
    "DESIGN.md §6 C03")
