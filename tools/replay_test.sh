#!/bin/bash
# usage: tools/replay_test.sh <seed-id> <check>   — replay round trip: mutant => exit 1, clean tree => exit 0
sid=$1; c=$2; d=/tmp/rt_$sid
rm -rf $d; rsync -a --exclude .git /repo/ $d/; (cd $d && patch -s -p1 < /verif/seeded/$sid/patch.diff)
cd /verif
out=$(VERIF_REPO=$d /venv/bin/python -m vf check $c --tier quick 2>&1)
f=$(echo "$out" | grep -m1 '^VIOLATION' | sed 's/.*replay=//')
if [ -z "$f" ]; then echo "$sid $c: no violation"; rm -rf $d; exit; fi
VERIF_REPO=$d /venv/bin/python -m vf replay $c $f > /tmp/rt_$sid.mut 2>&1; a=$?
/venv/bin/python -m vf replay $c $f > /tmp/rt_$sid.clean 2>&1; b=$?
echo "$sid $c: replay on mutant exit=$a, on clean tree exit=$b  ($f)"
rm -rf $d; git -C /verif checkout -- evidence/$c.json 2>/dev/null
