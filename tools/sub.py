"""sub.py FILE OLD NEW  — exact single replacement helper for mutants"""
import sys
p, old, new = sys.argv[1:4]
s = open(p).read()
assert s.count(old) >= 1, f"pattern not found in {p}: {old!r}"
s = s.replace(old, new, 1)
open(p, "w").write(s)
