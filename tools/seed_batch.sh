#!/bin/bash
# usage: [WT_PREFIX=/tmp/w3_] [SEED_OFFSET=2] tools/seed_batch.sh "C14 1" "C14 2 C14,C01" ...   (4 at a time)
# item = "<PROP> <n> [checks]": directory ${WT_PREFIX}<PROP>/_mut/<n>, seed id <PROP>-m<n+SEED_OFFSET>
run_one() { set -- $1; id=$(( $2 + ${SEED_OFFSET:-0} )); /venv/bin/python /verif/tools/seed.py $1 ${WT_PREFIX:-/tmp/wt_}$1/_mut/$2 ${1}-m$id ${3:+--checks $3} > /tmp/seed_${1}_$id.log 2>&1; }
export -f run_one
printf '%s\n' "$@" | xargs -P ${SEED_PAR:-4} -I{} bash -c 'run_one "{}"'
for x in "$@"; do set -- $x; id=$(( $2 + ${SEED_OFFSET:-0} )); /venv/bin/python - <<PY
import json
try:
    m=json.load(open('/verif/seeded/$1-m$id/meta.json'))
    print('$1-m$id', {k:m.get(k) for k in ('demo_clean_exit','patch_applies','demo_mutant_exit','tests_same_as_baseline')}, {c:(v['detected'],v['exit'],v['n_keys'],v['wall_s'],v['violation_keys'][:2]) for c,v in m['checks'].items()})
except Exception as e: print('$1-m$id FAILED', e)
PY
done
