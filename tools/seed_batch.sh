#!/bin/bash
# usage: tools/seed_batch.sh "C14 1" "C14 2" ...   (4 at a time)
run_one() { set -- $1; /venv/bin/python /verif/tools/seed.py $1 ${WT_PREFIX:-/tmp/wt_}$1/_mut/$2 ${1}-m$2 ${3:+--checks $3} > /tmp/seed_${1}_$2.log 2>&1; }
export -f run_one
printf '%s\n' "$@" | xargs -P 4 -I{} bash -c 'run_one "{}"'
for x in "$@"; do set -- $x; /venv/bin/python - <<PY
import json
try:
    m=json.load(open('/verif/seeded/$1-m$2/meta.json'))
    print('$1-m$2', {k:m.get(k) for k in ('demo_clean_exit','patch_applies','demo_mutant_exit','tests_same_as_baseline')}, {c:(v['detected'],v['n_keys'],v['wall_s'],v['violation_keys'][:2]) for c,v in m['checks'].items()})
except Exception as e: print('$1-m$2 FAILED', e)
PY
done
