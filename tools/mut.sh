#!/bin/bash
# usage: tools/mut.sh <name> <prop> <python-snippet-editing-files-under-cwd>   (scratch copy, run quick check, delete)
set -e
name=$1; prop=$2; snippet=$3
d=/tmp/mut_$name
rm -rf $d; rsync -a --exclude .git /repo/ $d/
( cd $d && /venv/bin/python -c "$snippet" )
( cd $d && diff -ru /repo/jaxtyping $d/jaxtyping | head -30 ) || true
cd /verif
set +e
VERIF_REPO=$d /venv/bin/python -m vf check $prop --tier ${TIER:-quick} 2>&1 | grep -v '^  ' | tail -${TAIL:-4}
echo "exit=${PIPESTATUS[0]}"
rm -rf $d
git -C /verif checkout -- evidence/$prop.json 2>/dev/null || true
