#!/bin/bash
# Re-run every archived seed against the checks recorded in its meta.json (tests skipped): regression of detection.
cd /verif
rm -rf /verif/seeded/_base   # violation keys of unpatched base commits depend on the checks: recomputed
run_one() { sid=$1; d=/verif/seeded/$sid; checks=$(/venv/bin/python -c "import json;print(','.join(json.load(open('$d/meta.json'))['checks']))"); prop=${sid%%-*}; /venv/bin/python tools/seed.py $prop $d $sid --skip-tests --checks $checks > /tmp/reseed_$sid.log 2>&1; }
export -f run_one
ls seeded | grep -E '^C[0-9]+-m[0-9]+$' | xargs -P ${SEED_PAR:-4} -I{} bash -c 'run_one {}'
/venv/bin/python tools/seed_table.py > /dev/null
/venv/bin/python - <<'PY'
import json,glob
bad=[]
for f in sorted(glob.glob('/verif/seeded/*/meta.json')):
    m=json.load(open(f))
    det=[c for c,v in m['checks'].items() if v['detected']]
    if not det: bad.append(m['seed'])
    print(m['seed'], 'detected by', det, 'not by', [c for c,v in m['checks'].items() if not v['detected']])
print("UNDETECTED:", bad)
PY
