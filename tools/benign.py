#!/venv/bin/python
"""False-alarm test: run checks against a BEHAVIOUR-PRESERVING refactoring of jaxtyping.

usage: tools/benign.py <dir with patch.diff notes.md> [--base <commit>] [--checks C01,C02] [--tier quick]
The patch is applied to a scratch copy of /repo (or of commit <base> when it was written against an
older tree and no longer applies); every violation key a check prints is a false alarm unless the
unpatched base shows it too.  Writes <dir>/result.json.
"""
import json
import os
import re
import shutil
import subprocess
import sys
import time

sys.path.insert(0, os.path.dirname(__file__))
from seed import PY, base_violation_keys, sh  # noqa: E402


def main():
    args = sys.argv[1:]
    d = os.path.abspath(args[0])
    base, tier = None, "quick"
    checks = [f"C{i:02d}" for i in range(1, 21)]
    for i, a in enumerate(args):
        if a == "--base":
            base = args[i + 1]
        if a == "--checks":
            checks = args[i + 1].split(",")
        if a == "--tier":
            tier = args[i + 1]
    name = os.path.basename(d)
    scratch = f"/tmp/benign_{name}"
    shutil.rmtree(scratch, ignore_errors=True)
    os.makedirs(scratch)
    res = dict(name=name, base=base or sh("git -C /repo log --format=%h -1")[1].strip(), at=time.strftime("%Y-%m-%dT%H:%M:%SZ", time.gmtime()), checks={})
    try:
        sh(f"git -C /repo archive {base or 'HEAD'} | tar -x -C {scratch}")
        rc, out = sh(f"patch -p1 < {d}/patch.diff", cwd=scratch)
        res["patch_applies"] = rc == 0
        if rc != 0:
            res["patch_output"] = out[-400:]
        else:
            for c in checks:
                t0 = time.time()
                rc, out = sh(f"{PY} -m vf check {c} --tier {tier}", cwd="/verif", env={"VERIF_REPO": scratch})
                keys = sorted(set(re.findall(r"^  key=(\S+)", out, re.M)))
                if base:
                    bk = set(base_violation_keys(base, c, tier))
                    keys = [k for k in keys if k not in bk]
                res["checks"][c] = dict(exit=rc, false_alarm_keys=keys[:20], silent=(rc == 0) or (rc == 1 and base is not None and not keys), wall_s=round(time.time() - t0, 1), tail=(out.strip().splitlines() or [""])[-1][:200])
                sh(f"git -C /verif checkout -- evidence/{c}.json")
    finally:
        shutil.rmtree(scratch, ignore_errors=True)
    json.dump(res, open(f"{d}/result.json", "w"), indent=1)
    print(name, {c: ("silent" if v["silent"] else ("ALARM", v["exit"], v["false_alarm_keys"][:3])) for c, v in res["checks"].items()})


if __name__ == "__main__":
    main()
