#!/venv/bin/python
"""Confirm and archive one seeded property-breaking change.

usage: tools/seed.py <PROP> <dir with patch.diff demo.py notes.md> <seed-id> [--checks C01,C04] [--tier quick] [--skip-tests]

Steps (all in a scratch copy of /repo outside /repo and /verif, removed afterwards):
  1. demo.py passes on the clean copy;   2. patch applies;   3. demo.py fails with it;
  4. the repository test suite has exactly the baseline failures with it;
  5. the listed checks are run with VERIF_REPO=<scratch> and their exit status / keys recorded.
Writes /verif/seeded/<seed-id>/{patch.diff,demo.py,notes.md,meta.json}.
"""
import json
import os
import re
import shutil
import subprocess
import sys
import time

BASE_FAIL = {
    "test/test_decorator.py::test_mlx[False-beartype]",
    "test/test_decorator.py::test_mlx[False-typechecked]",
    "test/test_decorator.py::test_mlx[True-beartype]",
    "test/test_decorator.py::test_mlx[True-typechecked]",
    "test/test_generators.py::test_generators_return_no_annotations[False-beartype]",
    "test/test_generators.py::test_generators_simple[False-beartype]",
}
PY = "/venv/bin/python"


def sh(cmd, cwd=None, env=None, timeout=3600):
    e = dict(os.environ)
    e.pop("VERIF_REPO", None)
    if env:
        e.update(env)
    p = subprocess.run(cmd, shell=True, cwd=cwd, env=e, capture_output=True, text=True, timeout=timeout)
    return p.returncode, p.stdout + p.stderr


def base_violation_keys(base, check, tier):
    """Violation keys of the UNPATCHED commit `base` (cached under seeded/_base/)."""
    cache = f"/verif/seeded/_base/{base}_{check}_{tier}.json"
    if os.path.exists(cache):
        return json.load(open(cache))["keys"]
    d = f"/tmp/seedbase_{base}_{check}_{os.getpid()}"
    shutil.rmtree(d, ignore_errors=True)
    os.makedirs(d)
    try:
        sh(f"git -C /repo archive {base} | tar -x -C {d}")
        rc, out = sh(f"{PY} -m vf check {check} --tier {tier}", cwd="/verif", env={"VERIF_REPO": d})
        sh(f"git -C /verif checkout -- evidence/{check}.json")
    finally:
        shutil.rmtree(d, ignore_errors=True)
    keys = sorted(set(re.findall(r"^  key=(\S+)", out, re.M)))
    os.makedirs(os.path.dirname(cache), exist_ok=True)
    json.dump(dict(commit=base, check=check, tier=tier, exit=rc, keys=keys), open(cache, "w"), indent=1)
    return keys


def main():
    args = sys.argv[1:]
    prop, src, sid = args[:3]
    checks = [prop]
    tier = "quick"
    skip_tests = "--skip-tests" in args
    for i, a in enumerate(args):
        if a == "--checks":
            checks = args[i + 1].split(",")
        if a == "--tier":
            tier = args[i + 1]
    base = None
    for i, a in enumerate(args):
        if a == "--base":
            base = args[i + 1]
    dst = f"/verif/seeded/{sid}"
    os.makedirs(dst, exist_ok=True)
    for f in ("patch.diff", "demo.py", "notes.md"):
        if os.path.exists(os.path.join(src, f)) and os.path.abspath(src) != os.path.abspath(dst):
            shutil.copy(os.path.join(src, f), os.path.join(dst, f))
    old = {}
    if os.path.exists(f"{dst}/meta.json"):
        try:
            old = json.load(open(f"{dst}/meta.json"))
        except Exception:
            old = {}
    base = base or old.get("base_commit")
    scratch = f"/tmp/seed_{sid}"
    shutil.rmtree(scratch, ignore_errors=True)
    if base:
        # the change targets code that a later fix: commit replaced: it is applied to the commit it
        # was written against, and only violations that the unpatched base does NOT show count
        os.makedirs(scratch)
        sh(f"git -C /repo archive {base} | tar -x -C {scratch}")
    else:
        sh(f"rsync -a --exclude .git --exclude _mut /repo/ {scratch}/")
    os.makedirs(f"{scratch}/_mut/x", exist_ok=True)
    shutil.copy(f"{dst}/demo.py", f"{scratch}/_mut/x/demo.py")
    meta = dict(seed=sid, property=prop, at=time.strftime("%Y-%m-%dT%H:%M:%SZ", time.gmtime()), repo_head=sh("git -C /repo log --format=%h -1")[1].strip())
    if base:
        meta["base_commit"] = base
        meta["base_note"] = f"applied to commit {base} (the code it changes was replaced by a later fix: commit); detected = a violation key that the unpatched commit {base} does not produce"
    try:
        rc, out = sh(f"{PY} _mut/x/demo.py", cwd=scratch)
        meta["demo_clean_exit"] = rc
        rc, out = sh(f"patch -p1 < {dst}/patch.diff", cwd=scratch)
        meta["patch_applies"] = rc == 0
        if rc != 0:
            meta["patch_output"] = out[-500:]
        rc, out = sh(f"{PY} _mut/x/demo.py", cwd=scratch)
        meta["demo_mutant_exit"] = rc
        meta["demo_mutant_tail"] = out[-300:]
        if not skip_tests:
            rc, out = sh(f"{PY} -m pytest -q -p no:cacheprovider --timeout=900 -q test -rf 2>&1 | tail -40", cwd=scratch)
            failed = set(re.findall(r"^FAILED (\S+)", out, re.M))
            meta["tests_failed"] = sorted(failed)
            meta["tests_same_as_baseline"] = failed == BASE_FAIL
            m = re.search(r"(\d+) passed", out)
            meta["tests_passed"] = int(m.group(1)) if m else None
        elif old:
            for k in ("tests_failed", "tests_same_as_baseline", "tests_passed"):
                if k in old:
                    meta[k] = old[k]
            meta["tests_note"] = "test-suite result carried over from the earlier confirmation run of this seed"
        meta["checks"] = dict(old.get("checks", {})) if skip_tests else {}
        for c in checks:
            t0 = time.time()
            rc, out = sh(f"{PY} -m vf check {c} --tier {tier}", cwd="/verif", env={"VERIF_REPO": scratch})
            keys = sorted(set(re.findall(r"^  key=(\S+)", out, re.M)))
            base_keys = set()
            if base:
                base_keys = set(base_violation_keys(base, c, tier))
                keys = [k for k in keys if k not in base_keys]
            meta["checks"][c] = dict(tier=tier, exit=rc, detected=rc == 1 and (not base or bool(keys)), violation_keys=keys[:12], n_keys=len(keys), wall_s=round(time.time() - t0, 1), tail=out.strip().splitlines()[-1][:300] if out.strip() else "")
            if base:
                meta["checks"][c]["keys_also_shown_by_unpatched_base"] = len(base_keys)
            sh(f"git -C /verif checkout -- evidence/{c}.json")
    finally:
        shutil.rmtree(scratch, ignore_errors=True)
    if old.get("first_run"):
        meta["first_run"] = old["first_run"]
    notes = os.path.join(dst, "notes.md")
    meta["needs"] = open(notes).read()[:1500] if os.path.exists(notes) else ""
    meta["ran"] = f"tools/seed.py {' '.join(args)}"
    json.dump(meta, open(f"{dst}/meta.json", "w"), indent=1)
    print(json.dumps({k: v for k, v in meta.items() if k != "needs"}, indent=1)[:3000])


if __name__ == "__main__":
    main()
