#!/venv/bin/python
"""Generates /verif/MANIFEST.json from the table below (kept in one place so the
manifest is valid at all times: every property is either claimed or listed under
not_applicable with a reason)."""
import json, os, sys

HERE = os.path.dirname(os.path.dirname(os.path.abspath(__file__)))
PY = "/venv/bin/python"

# id -> (engine, level, technique, level text, level note, design ref)
CHECKS = {}

def add(pid, engine, level, technique, text, note, ref):
    CHECKS[pid] = dict(engine=engine, level=level, technique=technique, text=text, note=note, ref=ref)

exec(open(os.path.join(HERE, "tools", "checks_table.py")).read())

props = [json.loads(l) for l in open(os.path.join(HERE, "properties.jsonl"))]
checks, na = [], []
for p in props:
    pid = p["id"]
    c = CHECKS.get(pid)
    if c is None:
        na.append(dict(property_id=pid, reason=NOT_BUILT.get(pid, "check not built yet in this round; no claim is made")))
        continue
    checks.append(dict(
        property_id=pid,
        quick_cmd=f"cd /verif && {PY} -m vf check {pid} --tier quick",
        thorough_cmd=f"cd /verif && {PY} -m vf check {pid} --tier thorough",
        evidence_file=f"/verif/evidence/{pid}.json",
        replay_cmd_template=f"cd /verif && {PY} -m vf replay {pid} {{path}}",
        engine=c["engine"],
        level_claimed=dict(category=c["level"], text=c["text"], design_ref=c["ref"]),
        level_note=c["note"],
        technique=c["technique"],
    ))
man = dict(
    version=1,
    setup_cmd=f"cd /verif && {PY} -m vf.selftest",
    hooks=dict(
        guard="JAXTYPING_VERIF",
        enable="no source hooks are needed: scheduling points come from sys.settrace, fault points from harness-owned user objects; checks import jaxtyping from /repo's working tree (editable install)",
        baseline_off_cmd="cd /repo && /venv/bin/python -m pytest -ra -q -p no:cacheprovider --timeout=900 --continue-on-collection-errors",
        source_commits=[],
        add_only=True,
    ),
    engines=ENGINES,
    checks=checks,
    notes=NOTES,
    not_applicable=na,
)
json.dump(man, open(os.path.join(HERE, "MANIFEST.json"), "w"), indent=1)
print("checks:", [c["property_id"] for c in checks], "not_applicable:", [n["property_id"] for n in na])
