#!/venv/bin/python
"""Regenerates /verif/seeded/RESULTS.md from the meta.json files."""
import glob, json, os
rows = []
for f in sorted(glob.glob("/verif/seeded/*/meta.json")):
    m = json.load(open(f))
    notes = m.get("needs", "").strip().splitlines()
    idea = next((l.strip("# ").strip() for l in notes if l.strip()), "")[:110]
    det = [c for c, v in m.get("checks", {}).items() if v.get("detected")]
    miss = [c for c, v in m.get("checks", {}).items() if not v.get("detected")]
    rows.append((m["seed"], m["property"], idea, "yes" if m.get("tests_same_as_baseline") else "NO", f"{m.get('demo_clean_exit')}/{m.get('demo_mutant_exit')}", ", ".join(det) or "-", ", ".join(miss) or "-"))
out = ["# Seeded property-breaking changes", "",
       "Each row: a change written by an independent sub-agent that saw only the property text and a scratch worktree; confirmed here by tools/seed.py",
       "(demo passes clean / fails with the change; repository test suite unchanged: same 6 baseline failures; checks run with VERIF_REPO=<scratch copy>).", "",
       "| seed | property | change | tests unchanged | demo exit clean/mutant | detected by (quick) | not detected by |", "|---|---|---|---|---|---|---|"]
for r in rows:
    out.append("| " + " | ".join(str(x).replace("|", "/") for x in r) + " |")
open("/verif/seeded/RESULTS.md", "w").write("\n".join(out) + "\n")
print("\n".join(out))
